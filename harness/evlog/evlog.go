// Package evlog is the process-wide, tick-ordered event log shared by the simulated cluster,
// the recording seams and the monitors.
package evlog

import (
	"fmt"
	"strings"
	"sync"
	"sync/atomic"
	"time"
)

// Rec is one observed event. T is a process-wide logical tick; records are totally ordered by T.
type Rec struct {
	T   int64  `json:"t"`
	K   string `json:"k"`             // kind, e.g. sim.rx, sim.tx, cons.deliver.call, md.save.call ...
	N   int    `json:"n,omitempty"`   // node index (sim records)
	Op  int    `json:"op,omitempty"`  // memcached opcode (sim records)
	VB  int    `json:"vb"`            // vBucket id, -1 when not applicable
	St  int    `json:"st,omitempty"`  // status (responses)
	Opq uint32 `json:"opq,omitempty"` // opaque
	Seq uint64 `json:"seq,omitempty"`
	A   uint64 `json:"a,omitempty"`
	B   uint64 `json:"b,omitempty"`
	C   uint64 `json:"c,omitempty"`
	D   uint64 `json:"d,omitempty"`
	E   uint64 `json:"e,omitempty"`
	S   string `json:"s,omitempty"`  // key / name / free text
	Cn  int    `json:"cn,omitempty"` // connection id
	W   int64  `json:"w,omitempty"`  // wall clock (unix nanoseconds), only for lower-bound arguments ("a timer cannot fire early")
}

func (r Rec) String() string {
	var b strings.Builder
	fmt.Fprintf(&b, "%d %s", r.T, r.K)
	if r.Op != 0 {
		fmt.Fprintf(&b, " op=0x%02x", r.Op)
	}
	if r.VB >= 0 {
		fmt.Fprintf(&b, " vb=%d", r.VB)
	}
	if r.St != 0 {
		fmt.Fprintf(&b, " st=0x%x", r.St)
	}
	if r.Seq != 0 {
		fmt.Fprintf(&b, " seq=%d", r.Seq)
	}
	if r.A != 0 || r.B != 0 || r.C != 0 || r.D != 0 || r.E != 0 {
		fmt.Fprintf(&b, " a=%d b=%d c=%d d=%d e=%d", r.A, r.B, r.C, r.D, r.E)
	}
	if r.S != "" {
		fmt.Fprintf(&b, " s=%q", r.S)
	}
	if r.N != 0 {
		fmt.Fprintf(&b, " n=%d", r.N)
	}
	return b.String()
}

type Log struct {
	mu   sync.Mutex
	recs []Rec
	subs []func(Rec)
	tick *int64
}

var globalTick int64

// Tick returns a fresh tick from the process-wide counter.
func Tick() int64 { return atomic.AddInt64(&globalTick, 1) }

func New() *Log { return &Log{tick: &globalTick} }

// Add stamps r (if r.T == 0) and appends it. Subscribers (online monitors) run under the log mutex
// so that monitor state is updated atomically with the append.
func (l *Log) Add(r Rec) int64 {
	if l == nil {
		return 0
	}
	l.mu.Lock()
	if r.T == 0 {
		r.T = Tick()
	}
	r.W = time.Now().UnixNano()
	l.recs = append(l.recs, r)
	for _, s := range l.subs {
		s(r)
	}
	l.mu.Unlock()
	return r.T
}

// Subscribe registers an online monitor callback (invoked under the log mutex; must not call Add).
func (l *Log) Subscribe(f func(Rec)) {
	l.mu.Lock()
	l.subs = append(l.subs, f)
	l.mu.Unlock()
}

// Snapshot returns a copy of the records so far (ordered by append; T is strictly increasing
// except for records pre-stamped by callers, which are sorted by Sorted()).
func (l *Log) Snapshot() []Rec {
	l.mu.Lock()
	out := make([]Rec, len(l.recs))
	copy(out, l.recs)
	l.mu.Unlock()
	return out
}

func (l *Log) Len() int {
	l.mu.Lock()
	defer l.mu.Unlock()
	return len(l.recs)
}

// Count returns number of records whose kind has the given prefix.
func (l *Log) Count(prefix string) int {
	l.mu.Lock()
	defer l.mu.Unlock()
	n := 0
	for _, r := range l.recs {
		if strings.HasPrefix(r.K, prefix) {
			n++
		}
	}
	return n
}

// Filter returns the records satisfying f.
func (l *Log) Filter(f func(Rec) bool) []Rec {
	l.mu.Lock()
	defer l.mu.Unlock()
	var out []Rec
	for _, r := range l.recs {
		if f(r) {
			out = append(out, r)
		}
	}
	return out
}
