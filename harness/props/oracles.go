package props

import (
	"bytes"
	"fmt"
	"time"

	"verif/harness/cbsim"
	"verif/harness/hx"
)

// Finding is one refuted clause with its witness.
type Finding struct {
	Prop   string
	Clause string
	Key    string // finding key (clause + minimal shape)
	Detail string
}

func isDoc(k byte) bool {
	return k == cbsim.KMutation || k == cbsim.KDeletion || k == cbsim.KExpiration
}

// expectedDeliveries applies the documented filters to what the node sent on one stream.
func expectedDeliveries(spec *SessSpec, sg *Seg) []SentItem {
	var out []SentItem
	for _, it := range sg.Items {
		if !isDoc(it.Kind) {
			continue
		}
		if reservedKey([]byte(it.Key)) {
			continue
		}
		if spec.SkipUntil != 0 && int64(it.Cas/1000000000) < spec.SkipUntil {
			continue
		}
		if sg.Rollback && it.Seq <= sg.FailedSeq {
			continue
		}
		out = append(out, it)
	}
	return out
}

// deliveriesOf returns the deliveries of vb that belong to stream sg (by tick order).
func deliveriesOf(tr *Trace, sg *Seg) []*hx.Delivered {
	var out []*hx.Delivered
	for _, e := range tr.Events {
		if int(e.VB) != sg.VB || e.T < sg.ReqT {
			continue
		}
		if sg.NextReqT != 0 && e.T > sg.NextReqT {
			continue
		}
		out = append(out, e)
	}
	return out
}

// OracleDelivery checks C03 (complete, ordered, duplicate-free, faithful) per stream and the
// offset/tuple clauses of C06 for delivered events. complete=false skips the completeness clause for
// streams the client itself closed (items in flight at close are legitimately dropped).
func OracleDelivery(tr *Trace) []Finding {
	var fs []Finding
	add := func(prop, clause, key, detail string) {
		fs = append(fs, Finding{prop, clause, key, detail})
	}
	collName := map[uint32]string{}
	for _, n := range tr.Spec.CollNames {
		if id, ok := tr.Spec.Colls[n]; ok {
			collName[id] = n
		} else if n == "_default" {
			collName[0] = "_default"
		}
	}
	if len(tr.Spec.CollNames) == 0 {
		collName[0] = "_default"
	}
	for vb, segs := range tr.Segs {
		for si, sg := range segs {
			if sg.ReplySt != 0 {
				continue
			}
			exp := expectedDeliveries(tr.Spec, sg)
			got := deliveriesOf(tr, sg)
			prefixOnly := sg.CloseT != 0
			// exact list comparison
			n := len(exp)
			if len(got) < n {
				n = len(got)
			}
			for i := 0; i < n; i++ {
				if got[i].Seq != exp[i].Seq {
					kind := "reordered-or-extra"
					for _, x := range exp[i:] {
						if x.Seq == got[i].Seq {
							kind = "missing"
						}
					}
					for _, x := range exp[:i] {
						if x.Seq == got[i].Seq {
							kind = "duplicate"
						}
					}
					if kind == "reordered-or-extra" {
						// delivered something that should have been filtered, or that was never sent?
						kind = "extra"
						for _, it := range sg.Items {
							if it.Seq == got[i].Seq {
								kind = "unfiltered"
							}
						}
					}
					add("C03", "list", "C03/list/"+kind, fmt.Sprintf("vb %d stream %d: delivery #%d has seqno %d, expected %d (%s); expected list %v, got %v", vb, si, i, got[i].Seq, exp[i].Seq, kind, seqsOf(exp), seqsOfD(got)))
					break
				}
			}
			if len(fs) == 0 || fs[len(fs)-1].Clause != "list" {
				if len(got) > len(exp) {
					kind := "extra"
					x := got[len(exp)]
					for _, it := range sg.Items {
						if it.Seq == x.Seq {
							kind = "unfiltered"
						}
					}
					for _, e := range exp {
						if e.Seq == x.Seq {
							kind = "duplicate"
						}
					}
					add("C03", "list", "C03/list/"+kind, fmt.Sprintf("vb %d stream %d: %d deliveries but only %d expected; first surplus seqno %d (%s)", vb, si, len(got), len(exp), x.Seq, kind))
				} else if len(got) < len(exp) && prefixOnly && waitedFor(tr, exp[len(got)].T, sg.CloseT) {
					add("C03", "list", "C03/list/undelivered", fmt.Sprintf("vb %d stream %d: %d of %d expected events delivered; seqno %d was sent at tick %d on a stream that stayed open, and was still undelivered after the harness had waited 16 s for it", vb, si, len(got), len(exp), exp[len(got)].Seq, exp[len(got)].T))
				} else if len(got) < len(exp) && !prefixOnly {
					add("C03", "list", "C03/list/missing", fmt.Sprintf("vb %d stream %d: %d of %d expected events delivered; first missing seqno %d (sent at tick %d)", vb, si, len(got), len(exp), exp[len(got)].Seq, exp[len(got)].T))
				}
			}
			// fidelity + offsets
			bySeq := map[uint64]SentItem{}
			for _, it := range sg.Items {
				bySeq[it.Seq] = it
			}
			for _, d := range got {
				it, ok := bySeq[d.Seq]
				if !ok {
					continue
				}
				full := tr.Items[vb][d.Seq]
				if byte(d.Kind) != it.Kind {
					add("C03", "faithful", "C03/faithful/kind", fmt.Sprintf("vb %d seq %d: kind %c delivered as %c", vb, d.Seq, it.Kind, d.Kind))
				}
				if !bytes.Equal(d.Key, full.Key) || d.Cas != full.Cas || d.RevNo != full.RevNo || uint16(d.VB) != uint16(vb) {
					add("C03", "faithful", "C03/faithful/field", fmt.Sprintf("vb %d seq %d: key/cas/revNo differ: sent key=%q cas=%d rev=%d, delivered key=%q cas=%d rev=%d", vb, d.Seq, full.Key, full.Cas, full.RevNo, d.Key, d.Cas, d.RevNo))
				}
				if it.Kind != cbsim.KExpiration && !bytes.Equal(d.Value, full.Value) {
					add("C03", "faithful", "C03/faithful/value", fmt.Sprintf("vb %d seq %d: value differs (%d bytes sent, %d delivered)", vb, d.Seq, len(full.Value), len(d.Value)))
				}
				if it.Kind == cbsim.KMutation && (d.Flags != full.Flags || d.Expiry != full.Expiry || d.Datatype != full.Datatype) {
					add("C03", "faithful", "C03/faithful/meta", fmt.Sprintf("vb %d seq %d: flags/expiry/datatype sent %d/%d/%d delivered %d/%d/%d", vb, d.Seq, full.Flags, full.Expiry, full.Datatype, d.Flags, d.Expiry, d.Datatype))
				}
				wantName := "_default"
				if n, ok := collName[full.Cid]; ok {
					wantName = n
				}
				if d.CollName != wantName {
					add("C03", "collection", "C03/collection", fmt.Sprintf("vb %d seq %d: collection id %d delivered with name %q, expected %q", vb, d.Seq, full.Cid, d.CollName, wantName))
				}
				if !d.EventTime.Equal(time.Unix(int64(full.Cas/1000000000), 0)) {
					add("C03", "eventtime", "C03/eventtime", fmt.Sprintf("vb %d seq %d: cas %d => event time %v, expected %v", vb, d.Seq, full.Cas, d.EventTime.Unix(), full.Cas/1000000000))
				}
				if d.Off.SeqNo != d.Seq {
					add("C03", "offset", "C03/offset-own-position", fmt.Sprintf("vb %d seq %d: offset seqno %d is not the event's own position", vb, d.Seq, d.Off.SeqNo))
				}
				// C06: tuple of one item under its announced marker and the stream's branch uuid
				if d.Snap.StartSeqNo != it.MarkS || d.Snap.EndSeqNo != it.MarkE {
					add("C06", "tuple", "C06/tuple/snapshot", fmt.Sprintf("vb %d seq %d: offset snapshot [%d,%d], announced marker [%d,%d]", vb, d.Seq, d.Snap.StartSeqNo, d.Snap.EndSeqNo, it.MarkS, it.MarkE))
				}
				if uint64(d.Off.VbUUID) != sg.ReplyUUID {
					add("C06", "tuple", "C06/tuple/vbuuid", fmt.Sprintf("vb %d seq %d: offset vbUUID %x, stream opened on branch %x", vb, d.Seq, uint64(d.Off.VbUUID), sg.ReplyUUID))
				}
				if !(d.Snap.StartSeqNo <= d.Off.SeqNo && d.Off.SeqNo <= d.Snap.EndSeqNo) {
					add("C06", "range", "C06/range/delivered", fmt.Sprintf("vb %d: delivered offset seq %d outside its snapshot [%d,%d]", vb, d.Off.SeqNo, d.Snap.StartSeqNo, d.Snap.EndSeqNo))
				}
			}
		}
	}
	// immutability shadow: objects handed out must not change afterwards
	for _, d := range tr.Events {
		if d.OffPtr != nil && d.SnapPtr != nil && (d.OffPtr.SeqNo != d.Seq || *d.SnapPtr != d.Snap || d.OffPtr.SnapshotMarker != d.SnapPtr) {
			add("C03", "offset", "C03/offset-own-position/changed-after-delivery", fmt.Sprintf("vb %d seq %d: the offset attached to the delivered event was (seq %d, [%d,%d]) at delivery and reads (seq %d, [%d,%d]) later", d.VB, d.Seq, d.Off.SeqNo, d.Snap.StartSeqNo, d.Snap.EndSeqNo, d.OffPtr.SeqNo, d.OffPtr.StartSeqNo, d.OffPtr.EndSeqNo))
		}
		if d.OffPtr != nil && (*d.OffPtr).SeqNo != d.Off.SeqNo || d.OffPtr != nil && d.OffPtr.VbUUID != d.Off.VbUUID {
			add("C06", "immutable", "C06/immutable/offset", fmt.Sprintf("vb %d seq %d: published offset object changed after delivery: was seq %d uuid %x, now seq %d uuid %x", d.VB, d.Seq, d.Off.SeqNo, uint64(d.Off.VbUUID), d.OffPtr.SeqNo, uint64(d.OffPtr.VbUUID)))
		}
		if d.SnapPtr != nil && *d.SnapPtr != d.Snap {
			add("C06", "immutable", "C06/immutable/snapshot", fmt.Sprintf("vb %d seq %d: published snapshot object changed after delivery: was [%d,%d], now [%d,%d]", d.VB, d.Seq, d.Snap.StartSeqNo, d.Snap.EndSeqNo, d.SnapPtr.StartSeqNo, d.SnapPtr.EndSeqNo))
		}
		if d.OffPtr != nil && d.OffPtr.SnapshotMarker != d.SnapPtr {
			add("C06", "immutable", "C06/immutable/offset", fmt.Sprintf("vb %d seq %d: published offset now points at another snapshot object", d.VB, d.Seq))
		}
	}
	return fs
}

func seqsOf(s []SentItem) []uint64 {
	var o []uint64
	for _, x := range s {
		o = append(o, x.Seq)
		if len(o) > 40 {
			break
		}
	}
	return o
}

func seqsOfD(s []*hx.Delivered) []uint64 {
	var o []uint64
	for _, x := range s {
		o = append(o, x.Seq)
		if len(o) > 40 {
			break
		}
	}
	return o
}

// waitedFor: did a barrier that started after the item was sent time out (16 s) before the client closed the stream?
func waitedFor(tr *Trace, sentT, closeT int64) bool {
	var start int64
	for _, r := range tr.Log {
		switch r.K {
		case "ctl.barrier":
			start = r.T
		case "ctl.barrier.timeout":
			if start > sentT && r.T < closeT {
				return true
			}
		}
	}
	return false
}

// legalTuples builds, per vBucket, the set of legal resume points: one per item sent (under its
// announced marker and the stream's branch uuid; seqno-advanced yields [seq,seq]) plus the resume
// tuples of the stream requests themselves (loaded from the store, legal by definition).
type tuple struct{ uuid, seq, ss, se uint64 }

func legalTuples(tr *Trace) map[int]map[tuple]string {
	out := map[int]map[tuple]string{}
	for vb, segs := range tr.Segs {
		m := map[tuple]string{}
		out[vb] = m
		// resume tuples: what the store held before the session, all-zero (no checkpoint, earliest),
		// or - auto-reset latest without any checkpoint - (current branch uuid, s, s, s)
		m[tuple{0, 0, 0, 0}] = "resume"
		if ps, ok := tr.Spec.PreStore[vb]; ok {
			m[tuple{ps[0], ps[1], ps[2], ps[3]}] = "resume"
		}
		for _, sg := range segs {
			if tr.Spec.AutoReset == "latest" && len(tr.Spec.PreStore) == 0 && sg.Start == sg.SnapS && sg.Start == sg.SnapE && sg.ReplySt == 0 && sg.ReqUUID == sg.ReplyUUID {
				m[tuple{sg.ReqUUID, sg.Start, sg.SnapS, sg.SnapE}] = "resume"
			}
			if sg.ReplySt != 0 {
				continue
			}
			for _, it := range sg.Items {
				if it.Kind == cbsim.KSeqnoAdv {
					m[tuple{sg.ReplyUUID, it.Seq, it.Seq, it.Seq}] = "seqno-advanced"
				} else {
					m[tuple{sg.ReplyUUID, it.Seq, it.MarkS, it.MarkE}] = "item"
				}
			}
		}
	}
	return out
}

// OracleTuples checks every tracked offset and every stored checkpoint (C06).
func OracleTuples(tr *Trace) []Finding {
	var fs []Finding
	legal := legalTuples(tr)
	check := func(where string, vb int, t tuple, tick int64) {
		m := legal[vb]
		if m == nil {
			return
		}
		if _, ok := m[t]; !ok {
			// which field is foreign?
			shape := "mixture"
			for lt := range m {
				if lt.seq == t.seq && lt.uuid == t.uuid {
					shape = "snapshot-of-another-event"
				}
			}
			for lt := range m {
				if lt.seq == t.seq && lt.ss == t.ss && lt.se == t.se {
					shape = "vbuuid-of-another-branch"
				}
			}
			fs = append(fs, Finding{"C06", "tuple", "C06/tuple/" + where + "/" + shape,
				fmt.Sprintf("%s at tick %d for vb %d: (vbuuid %x, seq %d, snapshot [%d,%d]) is not the tuple of any single event sent on this vBucket nor a resume tuple", where, tick, vb, t.uuid, t.seq, t.ss, t.se)})
			return
		}
		if m[t] != "resume" && !(t.ss <= t.seq && t.seq <= t.se) {
			fs = append(fs, Finding{"C06", "range", "C06/range/" + where, fmt.Sprintf("%s for vb %d: seq %d outside [%d,%d]", where, vb, t.seq, t.ss, t.se)})
		}
	}
	for _, r := range tr.Log {
		switch r.K {
		case "cons.track":
			check("tracked", r.VB, tuple{r.D, r.Seq, r.B, r.C}, r.T)
		case "md.write":
			check("stored", r.VB, tuple{r.D, r.Seq, r.B, r.C}, r.T)
		case "sim.xattrwrite":
			if vb, t, ok := decodeXattrWrite(r.S); ok {
				check("stored", vb, t, r.T)
			}
		}
	}
	if tr.Spec.Backend == "file" {
		// the file back end writes the whole dump: also entries of vBuckets that were not flagged
		for _, w := range fileStateWrites(tr) {
			check("stored", w.VB, w.Tup, w.T)
		}
	}
	for vb, segs := range tr.Segs {
		for _, sg := range segs {
			if !sg.Rollback {
				check("requested", vb, tuple{sg.ReqUUID, sg.Start, sg.SnapS, sg.SnapE}, sg.ReqT)
			}
		}
	}
	for _, t := range tr.Tracks {
		if t.Ptr != nil && (t.Ptr.SeqNo != t.Off.SeqNo || t.Ptr.VbUUID != t.Off.VbUUID) {
			fs = append(fs, Finding{"C06", "immutable", "C06/immutable/offset", fmt.Sprintf("vb %d: offset object passed to TrackOffset changed afterwards (seq %d -> %d)", t.VB, t.Off.SeqNo, t.Ptr.SeqNo)})
		}
		if t.SPtr != nil && *t.SPtr != t.Snap {
			fs = append(fs, Finding{"C06", "immutable", "C06/immutable/snapshot", fmt.Sprintf("vb %d seq %d: snapshot object passed to TrackOffset changed afterwards: [%d,%d] -> [%d,%d]", t.VB, t.Off.SeqNo, t.Snap.StartSeqNo, t.Snap.EndSeqNo, t.SPtr.StartSeqNo, t.SPtr.EndSeqNo)})
		}
	}
	return fs
}

// decodeXattrWrite parses the record of a checkpoint xattr write: key \0 path \0 json.
func decodeXattrWrite(s string) (int, tuple, bool) {
	parts := bytes.SplitN([]byte(s), []byte{0}, 3)
	if len(parts) != 3 {
		return 0, tuple{}, false
	}
	key := string(parts[0])
	i := bytes.LastIndexByte(parts[0], ':')
	if i < 0 || !bytes.Contains(parts[0], []byte(":checkpoint:")) {
		return 0, tuple{}, false
	}
	vb := 0
	for _, c := range key[i+1:] {
		if c < '0' || c > '9' {
			return 0, tuple{}, false
		}
		vb = vb*10 + int(c-'0')
	}
	var doc struct {
		Checkpoint struct {
			Snapshot struct {
				StartSeqno uint64 `json:"startSeqno"`
				EndSeqno   uint64 `json:"endSeqno"`
			} `json:"snapshot"`
			Vbuuid uint64 `json:"vbuuid"`
			Seqno  uint64 `json:"seqno"`
		} `json:"checkpoint"`
	}
	if err := jsonUnmarshal(parts[2], &doc); err != nil {
		return 0, tuple{}, false
	}
	return vb, tuple{doc.Checkpoint.Vbuuid, doc.Checkpoint.Seqno, doc.Checkpoint.Snapshot.StartSeqno, doc.Checkpoint.Snapshot.EndSeqno}, true
}
