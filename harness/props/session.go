package props

import (
	"encoding/json"
	"fmt"
	"hash/fnv"
	"math/rand"
	"net"
	"os"
	"path/filepath"
	"sort"
	"strings"
	"sync"
	"sync/atomic"
	"syscall"
	"time"

	"github.com/Trendyol/go-dcp/config"
	"github.com/Trendyol/go-dcp/metadata"
	"github.com/Trendyol/go-dcp/models"

	"verif/harness/cbsim"
	"verif/harness/drv"
	"verif/harness/evlog"
	"verif/harness/hx"
)

// A session is one run of the real client (M-full: NewExtendedDcp + Start ... Close) against the
// simulated cluster, driven by a step script. Several properties share the engine and differ in
// their generators and in the oracle clauses they own.

type ItemSpec struct {
	K      string `json:"k"` // m d e s a
	Key    []byte `json:"key,omitempty"`
	Val    []byte `json:"val,omitempty"`
	Cas    uint64 `json:"cas,omitempty"`
	Rev    uint64 `json:"rev,omitempty"`
	Flags  uint32 `json:"fl,omitempty"`
	Expiry uint32 `json:"exp,omitempty"`
	Cid    uint32 `json:"cid,omitempty"`
	DT     uint8  `json:"dt,omitempty"`
	Seq    uint64 `json:"seq,omitempty"` // 0 = next
	Sys    uint32 `json:"sys,omitempty"`
	// SnapExtra > 0 (on the first item of an appended batch): the snapshot is announced wider than what exists yet,
	// [first, last+SnapExtra] - the rest of it arrives later (possibly after a re-open, under a marker of its own)
	SnapExtra int `json:"snap_extra,omitempty"`
}

type Step struct {
	Op    string     `json:"op"` // append ack reack commit barrier sleep end dropdcp close failsaves holdsave releasesave
	VB    int        `json:"vb,omitempty"`
	Items []ItemSpec `json:"items,omitempty"`
	N     int        `json:"n,omitempty"`
	Sel   string     `json:"sel,omitempty"` // oldest newest random all
	Ms    int        `json:"ms,omitempty"`
	St    uint32     `json:"st,omitempty"`
}

type SessSpec struct {
	NumVB      int                  `json:"num_vb"`
	Nodes      int                  `json:"nodes,omitempty"`
	Backend    string               `json:"backend"` // mem cb file
	Auto       bool                 `json:"auto,omitempty"`
	IntervalMs int                  `json:"interval_ms,omitempty"`
	SkipUntil  int64                `json:"skip_until,omitempty"` // unix seconds, 0 = none
	Colls      map[string]uint32    `json:"colls,omitempty"`      // collections existing on the server: name -> id
	CollNames  []string             `json:"coll_names,omitempty"` // configured collectionNames
	Backlog    map[int][][]ItemSpec `json:"backlog,omitempty"`    // per vBucket: snapshots present before start
	PreStore   map[int][4]uint64    `json:"prestore,omitempty"`   // vb -> uuid, seq, snapStart, snapEnd
	AckSeed    int64                `json:"ack_seed"`
	PNow       float64              `json:"p_now"`                 // probability to ack inside the listener
	PDefer     float64              `json:"p_defer"`               // probability to defer (rest: never)
	PCommitIn  float64              `json:"p_commit_in,omitempty"` // probability to call Commit inside the listener after an immediate ack
	// CommitUnacked: the in-listener Commit is also called on events whose acknowledgement is deferred or withheld
	CommitUnacked bool   `json:"commit_unacked,omitempty"`
	Steps         []Step `json:"steps"`
	// StartSteps run concurrently with Start(), before the client signalled readiness (ops: waithold, end, waitreopen, releasereq, sleep)
	StartSteps   []Step         `json:"start_steps,omitempty"`
	FailSaves    []int          `json:"fail_saves,omitempty"` // 1-based indices of mem-backend saves that are rejected
	SlowSaveMs   int            `json:"slow_save_ms,omitempty"`
	Fragment     bool           `json:"fragment,omitempty"`
	SlowConsUs   int            `json:"slow_cons_us,omitempty"`
	AutoReset    string         `json:"auto_reset,omitempty"`
	Mode         string         `json:"mode,omitempty"`
	ReadOnly     bool           `json:"read_only,omitempty"`
	API          bool           `json:"api,omitempty"`
	NoFinalClose bool           `json:"no_final_close,omitempty"`
	GroupName    string         `json:"group,omitempty"`
	Rollbacks    map[int]uint64 `json:"rollbacks,omitempty"`     // vb -> R: the first stream request of vb is answered ROLLBACK(R)
	RollbackAt   map[int]int    `json:"rollback_at,omitempty"`   // vb -> which request (1-based) gets the ROLLBACK answer (default 1)
	RollbackAlso map[int]int    `json:"rollback_also,omitempty"` // vb -> a second request index that is answered ROLLBACK(R) as well
	// RollbackAlsoLower: that second answer names R/2 instead of R
	RollbackAlsoLower bool `json:"rollback_also_lower,omitempty"`
	// HoldConsAtStart: the consumer blocks inside its very first delivery (until "releasecons"); installed before Start()
	HoldConsAtStart bool `json:"hold_cons_at_start,omitempty"`
	// FailoverLogDelayMs: the node answers failover-log requests that much later
	FailoverLogDelayMs int `json:"failover_log_delay_ms,omitempty"`
	// DiskMarkers: the node announces every snapshot as an on-disk (backfill) snapshot
	DiskMarkers bool `json:"disk_markers,omitempty"`
	// Ephemeral: the simulated bucket is an ephemeral one (the library switches rollback mitigation off for those)
	Ephemeral bool `json:"ephemeral,omitempty"`
	// PreStoreBucket: the bucket uuid the pre-stored checkpoints carry (default: the simulated bucket's own)
	PreStoreBucket string `json:"prestore_bucket,omitempty"`
	// FileSparse: the pre-written checkpoint file holds the PreStore entries only (written under a narrower assignment)
	FileSparse bool `json:"file_sparse,omitempty"`
	// NoteReqs: every stream request is also reported to the parent process at once (it survives a death of the child)
	NoteReqs bool `json:"note_reqs,omitempty"`
	// LingerMs: after the script (and the close) the session stays around that long before the log is taken
	LingerMs int `json:"linger_ms,omitempty"`
	// ReqFailFrom: ReqFail applies to the given request index and to every later request of that vBucket
	ReqFailFrom bool `json:"req_fail_from,omitempty"`
	// EndBehindReq: vb -> (request index, status): right behind the node's answer to that stream request the stream is ended
	// with that status (the end reaches the client before its open call has returned)
	EndBehindReq map[int][2]int `json:"end_behind_req,omitempty"`
	// StaticMember: static membership (member, total) instead of 1/1
	StaticMember [2]int `json:"static_member,omitempty"`
	// FailoverOnLogFetch: vb -> n: right after the node answered the failover-log request that follows the vBucket's ROLLBACK
	// answer, the vBucket gets a new branch (uuid 0xfa0000+n, starting at R): the stream opened next is on that branch
	FailoverOnLogFetch map[int]int         `json:"failover_on_log_fetch,omitempty"`
	ReqFail            map[int][2]int      `json:"req_fail,omitempty"`   // vb -> (request index, status): that stream request is answered with an error status
	ReqHold            map[int]int         `json:"req_hold,omitempty"`   // vb -> request index whose reply is held until a "releasereq" step
	Failover           map[int][][2]uint64 `json:"failover,omitempty"`   // vb -> failover log (uuid, seq), newest first
	CBFaults           []CBFault           `json:"cb_faults,omitempty"`  // faults on checkpoint xattr writes (couchbase back end)
	Membership         string              `json:"membership,omitempty"` // "" static 1/1 | dynamic (fed through PUT /membership/info)
	FirstInfo          [2]int              `json:"first_info,omitempty"` // member,total sent while starting (dynamic)
	RebalanceDelayMs   int                 `json:"rebalance_delay_ms,omitempty"`
	// LogDelayMs: the goroutine writing a library log line that contains the key is held up for that many ms
	// (a slow log sink / a pre-emption at that point of the library's execution)
	LogDelayMs map[string]int `json:"log_delay_ms,omitempty"`
	// HookDelayMs: injected delays at the library's verif hook points (point name -> ms), e.g. "wait.signal"
	HookDelayMs        map[string]int       `json:"hook_delay_ms,omitempty"`
	RollbackMitigation bool                 `json:"rollback_mitigation,omitempty"`
	HealthCheck        bool                 `json:"health_check,omitempty"`
	HCTimeoutMs        int                  `json:"hc_timeout_ms,omitempty"`
	Replicas           int                  `json:"replicas,omitempty"`
	UnassignedReplicas map[int][]int        `json:"unassigned_replicas,omitempty"` // vb -> replica indexes that are -1 in the cluster map
	ObserveInit        map[string][2]uint64 `json:"observe_init,omitempty"`        // "vb:replica" -> (uuid selector 0=current branch | explicit, persisted)
	RMIntervalMs       int                  `json:"rm_interval_ms,omitempty"`
	RMWatchMs          int                  `json:"rm_watch_ms,omitempty"` // rollbackMitigation.configWatchInterval (default of the harness: 50 ms)
	GatedVB            int                  `json:"gated_vb,omitempty"`    // C07: the vBucket whose replica reports are scripted (others are fully persisted)
	Highs              map[int]uint64       `json:"highs,omitempty"`       // scripted vBucket high seqnos (synthetic, no items needed)
	CollHighs          map[int]uint64       `json:"coll_highs,omitempty"`  // scripted high seqno of the configured collections per vBucket
	Corrupt            []int                `json:"corrupt,omitempty"`     // vBuckets whose stored checkpoint xattr is not valid JSON (couchbase back end)
}

// MetricScrape is one GET /metrics.
type MetricScrape struct {
	TCall, TRet int64
	OK          bool
	Err         string
	Vals        map[string]float64 // "name{labels}" -> value
	// Overlap: the scrape was started in the background and is meant to straddle a close of the stream: it must end (not
	// crash, not fail); what it reports is not compared
	Overlap bool `json:"overlap,omitempty"`
}

// Read is one scrape of GET /states/offset.
type Read struct {
	TCall, TRet int64
	OK          bool
	Body        string
	Seq         map[int]uint64
	Snap        map[int][2]uint64
}

type CBFault struct {
	Nth    int    `json:"nth"`  // 1-based index of the checkpoint write request
	Kind   string `json:"kind"` // status silent delay
	Status uint16 `json:"status,omitempty"`
	Ms     int    `json:"ms,omitempty"`
}

// Seg is one DCP stream of one vBucket as the simulated node saw it.
type Seg struct {
	VB        int
	ReqT      int64
	Start     uint64
	End       uint64
	ReqUUID   uint64
	SnapS     uint64
	SnapE     uint64
	ReplyT    int64
	ReplySt   int
	ReplyUUID uint64 // first failover entry of the OK reply
	Rollback  bool   // this request follows a ROLLBACK answer to the previous one
	FailedSeq uint64 // start seqno of the request that was answered with ROLLBACK
	Items     []SentItem
	EndT      int64 // tick of server STREAM_END (0 = none)
	EndSt     int
	CloseT    int64 // tick of client CLOSE_STREAM request (0 = none)
	NextReqT  int64 // tick of the next request of the same vBucket (0 = none)
}

type SentItem struct {
	T     int64
	Seq   uint64
	Kind  byte
	Key   string
	Cas   uint64
	MarkS uint64
	MarkE uint64
}

type Trace struct {
	Spec            *SessSpec
	Env             *hx.Env
	Log             []evlog.Rec
	Events          []*hx.Delivered
	Tracks          []*hx.Tracked
	MD              *hx.MemMetadata
	Segs            map[int][]*Seg
	Items           map[int]map[uint64]cbsim.Item // full history per vb by seqno
	StartErr        string
	CloseOK         bool
	Notes           []string
	FilePath        string
	FileAtEnd       string // content of the checkpoint file when the session was over ("<absent>": no such file)
	BarrierTimeouts int
	Cfg             *config.Dcp
	Checks          []*StoreCheck
	Post            *PostClose
	CloseHangStacks []string
	Reads           []*Read
	Metrics         []*MetricScrape
	APIPort         int
	readMu          sync.Mutex
	sess            *session
}

// PostClose is what was observed after Start() returned following a Close().
type PostClose struct {
	TCloseCall   int64
	TStartRet    int64
	Returned     bool
	Store        map[int][4]uint64
	RxAfter      []string // requests the simulated node received later than the grace period after Start() returned
	OpenConns    int
	DeliverAfter int
}

// StoreCheck is one barrier comparison point (C05/C13): after a barrier an explicit Commit() is issued and
// the store is read; then a second Commit() is issued and the number of writes it caused is counted.
type StoreCheck struct {
	TCommitCall int64
	TCommitRet  int64
	Store       map[int][4]uint64 // vb -> uuid, seq, ss, se (absent = no checkpoint)
	IdleWrites  int
	TIdleCall   int64
	TIdleRet    int64
	NoIdle      bool
	// Stale: the save counted in IdleWrites followed a completed save and acknowledgements of events strictly
	// older than the tracked position of their vBucket (StaleAcks of them); nothing else happened in between
	Stale     bool
	StaleAcks int
}

func hash64(parts ...uint64) uint64 {
	h := fnv.New64a()
	b := make([]byte, 8)
	for _, p := range parts {
		for i := 0; i < 8; i++ {
			b[i] = byte(p >> (8 * uint(i)))
		}
		h.Write(b)
	}
	return h.Sum64()
}

func toItem(s ItemSpec) cbsim.Item {
	it := cbsim.Item{Key: s.Key, Value: s.Val, SeqNo: s.Seq, RevNo: s.Rev, Cas: s.Cas, Flags: s.Flags, Expiry: s.Expiry, Cid: s.Cid, Datatype: s.DT, SysEvent: s.Sys}
	switch s.K {
	case "m":
		it.Kind = cbsim.KMutation
	case "d":
		it.Kind = cbsim.KDeletion
	case "e":
		it.Kind = cbsim.KExpiration
	case "s":
		it.Kind = cbsim.KSystem
	case "a":
		it.Kind = cbsim.KSeqnoAdv
	}
	return it
}

type session struct {
	spec      *SessSpec
	env       *hx.Env
	cons      *hx.Consumer
	md        *hx.MemMetadata
	full      *hx.Full
	vbLocks   []sync.Mutex
	pmu       sync.Mutex
	pending   []*hx.Delivered
	acked     []*hx.Delivered
	holdCh    chan struct{}
	holdOnce  bool          // "holdsave" with N=1: only the next save that reaches the store is held
	heldCh    chan struct{} // the gate that one save is waiting on
	failSet   map[int]bool
	bgWG      sync.WaitGroup
	stormStop chan struct{}
	failNext  int32 // the next failNext saves of the mem back end are rejected (step "failnext")
	tr        *Trace
	rng       *rand.Rand
	notifyCtr int64
	notifyWG  sync.WaitGroup
	ehHolds   []chan struct{}
	consHold  chan struct{}
	obsFail   map[[2]int]string
	// firstDelivery: the first event of the session; its listener context is kept (an application that commits through a
	// context it received earlier - "commitold")
	firstDelivery *hx.Delivered
	stopReaders   []chan struct{}
	readerWG      sync.WaitGroup
}

// readMetrics scrapes GET /metrics (Prometheus text format).
func (s *session) readMetrics() *MetricScrape {
	m := &MetricScrape{Vals: map[string]float64{}}
	m.TCall = evlog.Tick()
	code, body, err := hx.HTTPDo("GET", fmt.Sprintf("http://127.0.0.1:%d/metrics", s.tr.APIPort), "", 10*time.Second)
	m.TRet = evlog.Tick()
	if err != nil {
		m.Err = err.Error()
	} else if code != 200 {
		m.Err = fmt.Sprintf("status %d: %s", code, body)
	} else {
		m.OK = true
		for _, ln := range strings.Split(body, "\n") {
			if ln == "" || ln[0] == '#' {
				continue
			}
			i := strings.LastIndexByte(ln, ' ')
			if i < 0 {
				continue
			}
			var v float64
			if _, err := fmt.Sscan(ln[i+1:], &v); err == nil {
				m.Vals[ln[:i]] = v
			}
		}
	}
	s.tr.readMu.Lock()
	s.tr.Metrics = append(s.tr.Metrics, m)
	s.tr.readMu.Unlock()
	return m
}

// readOffsets scrapes GET /states/offset and records call/return ticks and the per-vBucket positions.
func (s *session) readOffsets() {
	rd := &Read{Seq: map[int]uint64{}, Snap: map[int][2]uint64{}}
	rd.TCall = evlog.Tick()
	code, body, err := hx.HTTPDo("GET", fmt.Sprintf("http://127.0.0.1:%d/states/offset", s.tr.APIPort), "", 5*time.Second)
	rd.TRet = evlog.Tick()
	rd.Body = body
	if err == nil && code == 200 && strings.HasPrefix(body, "{") {
		var m map[string]struct {
			SnapshotMarker *struct {
				StartSeqNo uint64
				EndSeqNo   uint64
			}
			StartSeqNo uint64
			EndSeqNo   uint64
			VbUUID     uint64
			SeqNo      uint64
		}
		if json.Unmarshal([]byte(body), &m) == nil {
			rd.OK = true
			for k, v := range m {
				var vb int
				fmt.Sscan(k, &vb)
				rd.Seq[vb] = v.SeqNo
				ss, se := v.StartSeqNo, v.EndSeqNo
				if v.SnapshotMarker != nil {
					ss, se = v.SnapshotMarker.StartSeqNo, v.SnapshotMarker.EndSeqNo
				}
				rd.Snap[vb] = [2]uint64{ss, se}
			}
		}
	}
	s.tr.readMu.Lock()
	s.tr.Reads = append(s.tr.Reads, rd)
	s.tr.readMu.Unlock()
}

func (s *session) ackOne(d *hx.Delivered) {
	s.vbLocks[d.VB].Lock()
	d.Ack()
	s.vbLocks[d.VB].Unlock()
	s.pmu.Lock()
	s.acked = append(s.acked, d)
	s.pmu.Unlock()
}

// RunSession executes the script and returns the trace. It never judges.
func RunSession(spec *SessSpec) *Trace {
	tr := &Trace{Spec: spec, Segs: map[int][]*Seg{}, Items: map[int]map[uint64]cbsim.Item{}}
	if spec.Nodes == 0 {
		spec.Nodes = 1
	}
	env, err := hx.NewEnv(hx.EnvOpts{NumVB: spec.NumVB, Nodes: spec.Nodes, Replicas: spec.Replicas, Seed: spec.AckSeed})
	if err != nil {
		tr.StartErr = err.Error()
		return tr
	}
	tr.Env = env
	defer env.Close()
	if len(spec.LogDelayMs) > 0 {
		hx.LogHook = func(line string) {
			for k, ms := range spec.LogDelayMs {
				if strings.Contains(line, k) {
					env.Log.Add(evlog.Rec{K: "log.delay", VB: -1, A: uint64(ms), S: k})
					time.Sleep(time.Duration(ms) * time.Millisecond)
				}
			}
		}
		defer func() { hx.LogHook = nil }()
	}
	setHookDelays(env.Log, spec.HookDelayMs)
	defer setHookDelays(nil, nil)
	env.Sim.Fragment = spec.Fragment
	for name, id := range spec.Colls {
		env.Sim.Collections["_default."+name] = id
	}
	for vb, snaps := range spec.Backlog {
		for _, sn := range snaps {
			var its []cbsim.Item
			for _, is := range sn {
				its = append(its, toItem(is))
			}
			env.Sim.Append(uint16(vb), its)
		}
	}
	for vb, idxs := range spec.UnassignedReplicas {
		for _, ix := range idxs {
			env.Sim.SetReplicaNode(uint16(vb), ix, -1)
		}
	}
	for k, v := range spec.ObserveInit {
		var vb, ix int
		fmt.Sscanf(k, "%d:%d", &vb, &ix)
		uu := v[0]
		if uu == 0 {
			uu = env.Sim.FailoverCopy(uint16(vb))[0].UUID
		}
		env.Sim.SetObserve(uint16(vb), ix, uu, v[1])
	}
	env.Sim.DiskMarkers = spec.DiskMarkers
	if spec.Ephemeral {
		env.Sim.SetBucketInfo("ephemeral", "")
	}
	for vb, h := range spec.Highs {
		env.Sim.SetHigh(uint16(vb), h)
	}
	for vb, h := range spec.CollHighs {
		for _, id := range spec.Colls {
			env.Sim.SetCollHigh(uint16(vb), id, h)
		}
		env.Sim.SetCollHigh(uint16(vb), 0, h)
	}
	for vb, fl := range spec.Failover {
		var f []cbsim.Failover
		for _, e := range fl {
			f = append(f, cbsim.Failover{UUID: e[0], Seq: e[1]})
		}
		env.Sim.SetFailover(uint16(vb), f)
	}
	if spec.FailoverLogDelayMs > 0 {
		// a node that is slow to answer failover-log requests
		prevHook := env.Sim.Hook
		d := time.Duration(spec.FailoverLogDelayMs) * time.Millisecond
		env.Sim.Hook = func(r *cbsim.Req) *cbsim.Action {
			if r.Op == cbsim.OpDcpFailoverLog {
				return &cbsim.Action{Delay: d, Async: true}
			}
			if prevHook != nil {
				return prevHook(r)
			}
			return nil
		}
	}
	seqnoHold := new(int32)
	for _, st := range spec.Steps {
		if st.Op == "seqnohold" {
			// while switched on, the node answers sequence-number queries that many ms late
			prevHook := env.Sim.Hook
			env.Sim.Hook = func(r *cbsim.Req) *cbsim.Action {
				if ms := atomic.LoadInt32(seqnoHold); r.Op == cbsim.OpGetAllVBSeqnos && ms > 0 {
					return &cbsim.Action{Delay: time.Duration(ms) * time.Millisecond, Async: true}
				}
				if prevHook != nil {
					return prevHook(r)
				}
				return nil
			}
			break
		}
	}
	seqnoFail := new(int32)
	for _, st := range spec.Steps {
		if st.Op == "seqnofail" {
			// while switched on, the node answers sequence-number queries with an error status
			prevHook := env.Sim.Hook
			env.Sim.Hook = func(r *cbsim.Req) *cbsim.Action {
				if r.Op == cbsim.OpGetAllVBSeqnos && atomic.LoadInt32(seqnoFail) == 1 {
					return &cbsim.Action{HasStatus: true, Status: 0x84}
				}
				if prevHook != nil {
					return prevHook(r)
				}
				return nil
			}
			break
		}
	}
	collFail := new(int32)
	for _, st := range spec.Steps {
		if st.Op == "collfail" {
			// the node refuses the next collection-id lookup (unknown collection), later ones are answered again
			prevHook := env.Sim.Hook
			env.Sim.Hook = func(r *cbsim.Req) *cbsim.Action {
				if r.Op == cbsim.OpGetCollID && atomic.AddInt32(collFail, -1) >= 0 {
					return &cbsim.Action{HasStatus: true, Status: 0x88}
				}
				if prevHook != nil {
					return prevHook(r)
				}
				return nil
			}
			break
		}
	}
	if spec.RollbackMitigation {
		prevHook := env.Sim.Hook
		env.Sim.Hook = func(r *cbsim.Req) *cbsim.Action {
			if r.Op == cbsim.OpObserveSeqno {
				sess := tr.sess
				if sess != nil {
					sess.pmu.Lock()
					mode := sess.obsFail[[2]int{int(r.VB), r.Replica}]
					sess.pmu.Unlock()
					switch mode {
					case "tmpfail":
						return &cbsim.Action{HasStatus: true, Status: cbsim.StTmpFail}
					case "busy":
						return &cbsim.Action{HasStatus: true, Status: cbsim.StBusy}
					case "silent-once": // this one request is never answered (the client's 5 s deadline expires), later ones are
						sess.pmu.Lock()
						sess.obsFail[[2]int{int(r.VB), r.Replica}] = "ok"
						sess.pmu.Unlock()
						env.Log.Add(evlog.Rec{K: "sim.observe.silent", VB: int(r.VB), B: uint64(r.Replica)})
						return &cbsim.Action{NoReply: true}
					}
				}
			}
			if prevHook != nil {
				return prevHook(r)
			}
			return nil
		}
	}
	reqHoldCh := make(chan struct{})
	if len(spec.Rollbacks) > 0 || len(spec.ReqFail) > 0 || len(spec.ReqHold) > 0 || len(spec.EndBehindReq) > 0 || spec.NoteReqs {
		var rmu sync.Mutex
		nreq := map[int]int{}
		rolledBack := map[int]bool{}
		branched := map[int]bool{}
		env.Sim.Hook = func(r *cbsim.Req) *cbsim.Action {
			if r.Op == cbsim.OpDcpFailoverLog {
				rmu.Lock()
				defer rmu.Unlock()
				vb := int(r.VB)
				if n, ok := spec.FailoverOnLogFetch[vb]; ok && rolledBack[vb] && !branched[vb] {
					branched[vb] = true
					R := spec.Rollbacks[vb]
					return &cbsim.Action{After: func() {
						old := env.Sim.FailoverCopy(uint16(vb))
						env.Sim.SetFailover(uint16(vb), append([]cbsim.Failover{{UUID: 0xfa0000 + uint64(n), Seq: R}}, old...))
						env.Log.Add(evlog.Rec{K: "ctl.branch-after-logfetch", VB: vb, A: 0xfa0000 + uint64(n), B: R})
					}}
				}
				return nil
			}
			if r.Op != cbsim.OpDcpStreamReq {
				return nil
			}
			rmu.Lock()
			defer rmu.Unlock()
			nreq[int(r.VB)]++
			if spec.NoteReqs {
				drv.NoteFlush("streamreq vb=%d n=%d", r.VB, nreq[int(r.VB)])
			}
			if eb, ok := spec.EndBehindReq[int(r.VB)]; ok && eb[0] == nreq[int(r.VB)] {
				vbe, ste := r.VB, uint32(eb[1])
				return &cbsim.Action{After: func() { env.Sim.EndStreams(vbe, ste) }}
			}
			if rf, ok := spec.ReqFail[int(r.VB)]; ok && (rf[0] == nreq[int(r.VB)] || (spec.ReqFailFrom && nreq[int(r.VB)] > rf[0])) {
				return &cbsim.Action{HasStatus: true, Status: uint16(rf[1])}
			}
			if rh, ok := spec.ReqHold[int(r.VB)]; ok && rh == nreq[int(r.VB)] {
				env.Log.Add(evlog.Rec{K: "sim.hold", VB: int(r.VB)})
				return &cbsim.Action{Hold: reqHoldCh, Async: true}
			}
			R, ok := spec.Rollbacks[int(r.VB)]
			at := spec.RollbackAt[int(r.VB)]
			if at == 0 {
				at = 1
			}
			also, hasAlso := spec.RollbackAlso[int(r.VB)]
			if !ok || (nreq[int(r.VB)] != at && !(hasAlso && nreq[int(r.VB)] == also)) {
				return nil
			}
			rolledBack[int(r.VB)] = true
			if hasAlso && nreq[int(r.VB)] == also && spec.RollbackAlsoLower && R > 0 {
				R = R / 2 // the second answer names an earlier point than the first
			}
			b := make([]byte, 8)
			for i := 0; i < 8; i++ {
				b[7-i] = byte(R >> (8 * uint(i)))
			}
			return &cbsim.Action{HasStatus: true, Status: cbsim.StRollback, Value: b}
		}
	}
	s := &session{spec: spec, env: env, vbLocks: make([]sync.Mutex, spec.NumVB), failSet: map[int]bool{}, tr: tr, rng: rand.New(rand.NewSource(spec.AckSeed))}
	for _, n := range spec.FailSaves {
		s.failSet[n] = true
	}
	tr.sess = s
	cfg := env.BaseConfig()
	if spec.GroupName != "" {
		cfg.Dcp.Group.Name = spec.GroupName
	}
	if spec.StaticMember[1] != 0 {
		cfg.Dcp.Group.Membership.MemberNumber, cfg.Dcp.Group.Membership.TotalMembers = spec.StaticMember[0], spec.StaticMember[1]
	}
	if spec.Auto {
		cfg.Checkpoint.Type = "auto"
		cfg.Checkpoint.Interval = time.Duration(spec.IntervalMs) * time.Millisecond
	}
	if spec.AutoReset != "" {
		cfg.Checkpoint.AutoReset = spec.AutoReset
	}
	if spec.Mode != "" {
		cfg.Dcp.Mode = config.DcpMode(spec.Mode)
	}
	cfg.Metadata.ReadOnly = spec.ReadOnly
	if spec.SkipUntil != 0 {
		t := time.Unix(spec.SkipUntil, 0)
		cfg.Dcp.Listener.SkipUntil = &t
	}
	if len(spec.CollNames) > 0 {
		cfg.CollectionNames = spec.CollNames
	}
	var mdOpt *hx.MemMetadata
	preBucket := env.Sim.UUID
	if spec.PreStoreBucket != "" {
		preBucket = spec.PreStoreBucket
	}
	switch spec.Backend {
	case "mem":
		mdOpt = hx.NewMemMetadata(env.Log)
		for vb, c := range spec.PreStore {
			mdOpt.Put(uint16(vb), c[0], c[1], c[2], c[3])
		}
		mdOpt.OnSave = func(n int, _ map[uint16]*models.CheckpointDocument, _ map[uint16]bool) error {
			s.pmu.Lock()
			h := s.holdCh
			if h != nil && s.holdOnce {
				s.holdCh, s.heldCh, s.holdOnce = nil, h, false
			}
			s.pmu.Unlock()
			if h != nil {
				<-h
			}
			if spec.SlowSaveMs > 0 {
				time.Sleep(time.Duration(spec.SlowSaveMs) * time.Millisecond)
			}
			if s.failSet[n] {
				return hx.ErrStore
			}
			if atomic.LoadInt32(&s.failNext) > 0 {
				atomic.AddInt32(&s.failNext, -1)
				return hx.ErrStore
			}
			return nil
		}
		s.md = mdOpt
		tr.MD = mdOpt
	case "file":
		dir, _ := os.MkdirTemp("", "sess-")
		defer os.RemoveAll(dir)
		tr.FilePath = filepath.Join(dir, "ckpt.json")
		tr.FileAtEnd = "<absent>"
		defer func() {
			if b, err := os.ReadFile(tr.FilePath); err == nil {
				tr.FileAtEnd = string(b)
			}
		}()
		cfg.Metadata.Type = "file"
		cfg.Metadata.Config = map[string]string{"fileName": tr.FilePath}
		if len(spec.PreStore) > 0 {
			m := map[string]any{}
			// the file back end always stores the whole assignment; a realistic file has every vBucket
			for vb := 0; vb < spec.NumVB && !spec.FileSparse; vb++ {
				if _, ok := spec.PreStore[vb]; !ok {
					m[fmt.Sprint(vb)] = map[string]any{"checkpoint": map[string]any{"vbuuid": 0, "seqno": 0, "snapshot": map[string]any{"startSeqno": 0, "endSeqno": 0}}, "bucketUuid": env.Sim.UUID}
				}
			}
			for vb, c := range spec.PreStore {
				m[fmt.Sprint(vb)] = map[string]any{"checkpoint": map[string]any{"vbuuid": c[0], "seqno": c[1], "snapshot": map[string]any{"startSeqno": c[2], "endSeqno": c[3]}}, "bucketUuid": preBucket}
			}
			b, _ := json.MarshalIndent(m, "", "  ") // same layout the library's file back end writes
			os.WriteFile(tr.FilePath, b, 0o644)
		}
	default: // cb
		for _, vb := range spec.Corrupt {
			env.Sim.PutDoc(fmt.Sprintf("_connector:cbgo:%s:checkpoint:%d", cfg.Dcp.Group.Name, vb), []byte("{}"), map[string]json.RawMessage{"cbgo": json.RawMessage(`"not-a-checkpoint"`)})
		}
		for vb, c := range spec.PreStore {
			doc := fmt.Sprintf(`{"checkpoint":{"snapshot":{"startSeqno":%d,"endSeqno":%d},"vbuuid":%d,"seqno":%d},"bucketUuid":"%s"}`, c[2], c[3], c[0], c[1], preBucket)
			env.Sim.PutDoc(fmt.Sprintf("_connector:cbgo:%s:checkpoint:%d", cfg.Dcp.Group.Name, vb), []byte("{}"), map[string]json.RawMessage{"cbgo": json.RawMessage(doc)})
		}
	}
	if spec.API || spec.Membership == "dynamic" || spec.Membership == "kubernetesHa" {
		tr.APIPort = hx.FreePort()
		cfg.API.Disabled = false
		cfg.API.Port = tr.APIPort
		cfg.Debug = true
	}
	if spec.Membership == "dynamic" {
		cfg.Dcp.Group.Membership.Type = "dynamic"
	}
	if spec.Membership == "kubernetesHa" {
		cfg.Dcp.Group.Membership.Type = "kubernetesHa" // fed through the bus by PUT /membership/info; the configured delay applies
	}
	if spec.Membership == "couchbase" {
		cfg.Dcp.Group.Membership.Type = "couchbase"
		cfg.Dcp.Group.Membership.Config = map[string]string{"heartbeatInterval": "20ms", "monitorInterval": "20ms", "heartbeatToleranceDuration": "3s", "timeout": "2s", "expirySeconds": "10"}
	}
	if spec.RebalanceDelayMs > 0 {
		cfg.Dcp.Group.Membership.RebalanceDelay = time.Duration(spec.RebalanceDelayMs) * time.Millisecond
	}
	if spec.RollbackMitigation {
		cfg.RollbackMitigation.Disabled = false
		if spec.RMWatchMs > 0 {
			cfg.RollbackMitigation.ConfigWatchInterval = time.Duration(spec.RMWatchMs) * time.Millisecond
		}
		if spec.RMIntervalMs > 0 {
			cfg.RollbackMitigation.Interval = time.Duration(spec.RMIntervalMs) * time.Millisecond
		}
	}
	if spec.HealthCheck {
		cfg.HealthCheck.Disabled = false
		cfg.HealthCheck.Interval = 20 * time.Millisecond
		cfg.HealthCheck.Timeout = 2 * time.Second
		if spec.HCTimeoutMs > 0 {
			cfg.HealthCheck.Timeout = time.Duration(spec.HCTimeoutMs) * time.Millisecond
		}
	}
	tr.Cfg = cfg
	cons := &hx.Consumer{Log: env.Log}
	s.cons = cons
	if spec.HoldConsAtStart {
		s.consHold = make(chan struct{})
	}
	cons.OnEvent = func(d *hx.Delivered) {
		s.pmu.Lock()
		ch := s.consHold
		if s.firstDelivery == nil {
			s.firstDelivery = d
		}
		s.pmu.Unlock()
		if ch != nil {
			env.Log.Add(evlog.Rec{K: "cons.blocked", VB: int(d.VB), Seq: d.Seq})
			<-ch
		}
		if spec.SlowConsUs > 0 {
			time.Sleep(time.Duration(spec.SlowConsUs) * time.Microsecond)
		}
		r := float64(hash64(uint64(spec.AckSeed), uint64(d.VB), d.Seq)%1000000) / 1e6
		commitIn := spec.PCommitIn > 0 && float64(hash64(uint64(spec.AckSeed)+1, uint64(d.VB), d.Seq)%1000000)/1e6 < spec.PCommitIn
		switch {
		case r < spec.PNow:
			s.ackOne(d)
			if commitIn {
				d.Commit()
			}
		case r < spec.PNow+spec.PDefer:
			s.pmu.Lock()
			s.pending = append(s.pending, d)
			s.pmu.Unlock()
			if commitIn && spec.CommitUnacked {
				d.Commit() // the listener saves ("persist what was acknowledged so far") while this event is still in the worker
			}
		default:
			if commitIn && spec.CommitUnacked {
				d.Commit()
			}
		}
	}
	var opts hx.FullOpts
	opts.Consumer = cons
	if mdOpt != nil {
		opts.Metadata = mdOpt
	}
	if spec.Backend == "file" {
		cfgCopy := *cfg
		cfgCopy.ApplyDefaults()
		opts.Metadata = &hx.WrapMetadata{Inner: metadata.NewFSMetadata(&cfgCopy), Log: env.Log}
	}
	if len(spec.CBFaults) > 0 {
		var fmu sync.Mutex
		nw := 0
		prev := env.Sim.Hook
		env.Sim.Hook = func(r *cbsim.Req) *cbsim.Action {
			if r.Op == cbsim.OpSubdocMutate && strings.Contains(string(r.Key), ":checkpoint:") {
				fmu.Lock()
				nw++
				n := nw
				fmu.Unlock()
				for _, f := range spec.CBFaults {
					if f.Nth == n {
						env.Log.Add(evlog.Rec{K: "sim.fault", VB: int(r.VB), S: f.Kind, A: uint64(n)})
						switch f.Kind {
						case "status":
							return &cbsim.Action{HasStatus: true, Status: f.Status}
						case "silent":
							return &cbsim.Action{NoReply: true}
						case "delay":
							return &cbsim.Action{Delay: time.Duration(f.Ms) * time.Millisecond}
						}
					}
				}
			}
			if prev != nil {
				return prev(r)
			}
			return nil
		}
		cfg.Checkpoint.Timeout = 250 * time.Millisecond
	}
	if spec.Membership == "dynamic" || spec.Membership == "kubernetesHa" {
		opts.WhileStarting = func() {
			fi := spec.FirstInfo
			if fi[1] == 0 {
				fi = [2]int{1, 1}
			}
			for i := 0; i < 2000; i++ {
				code, _, err := hx.HTTPDo("PUT", fmt.Sprintf("http://127.0.0.1:%d/membership/info", tr.APIPort), fmt.Sprintf(`{"memberNumber":%d,"totalMembers":%d}`, fi[0], fi[1]), time.Second)
				if err == nil && code == 200 {
					env.Log.Add(evlog.Rec{K: "ctl.membership", VB: -1, A: uint64(fi[0]), B: uint64(fi[1])})
					return
				}
				time.Sleep(2 * time.Millisecond)
			}
		}
	}
	if len(spec.StartSteps) > 0 {
		prevWS := opts.WhileStarting
		opts.WhileStarting = func() {
			if prevWS != nil {
				prevWS()
			}
			for _, st := range spec.StartSteps {
				switch st.Op {
				case "waithold":
					hx.WaitFor(8*time.Second, func() bool { return env.Log.Count("sim.hold") >= st.N })
				case "waitopen": // the vBucket's stream request was answered
					vbw := st.VB
					hx.WaitFor(8*time.Second, func() bool {
						return len(env.Log.Filter(func(r evlog.Rec) bool {
							return r.K == "sim.tx" && r.Op == cbsim.OpDcpStreamReq && r.VB == vbw && r.St == 0
						})) > 0
					})
				case "end":
					env.Sim.EndStreams(uint16(st.VB), st.St)
				case "waitreopen":
					vbw, want := st.VB, st.N
					to := time.Duration(st.Ms) * time.Millisecond
					if to == 0 {
						to = 4 * time.Second
					}
					hx.WaitFor(to, func() bool {
						return len(env.Log.Filter(func(r evlog.Rec) bool { return r.K == "sim.rx" && r.Op == cbsim.OpDcpStreamReq && r.VB == vbw })) >= want
					})
				case "releasereq":
					close(reqHoldCh)
				case "sleep":
					time.Sleep(time.Duration(st.Ms) * time.Millisecond)
				case "observe": // as in the main script
					uu := uint64(st.Ms)
					if uu == 0 {
						uu = env.Sim.FailoverCopy(uint16(st.VB))[0].UUID
					}
					env.Sim.SetObserve(uint16(st.VB), st.N, uu, uint64(st.St))
					env.Log.Add(evlog.Rec{K: "ctl.observe", VB: st.VB, A: uu, B: uint64(st.N), Seq: uint64(st.St)})
				case "waitrounds":
					vbw, want := st.VB, st.N
					base := len(env.Log.Filter(func(r evlog.Rec) bool {
						return r.K == "sim.tx" && r.Op == cbsim.OpObserveSeqno && r.VB == vbw && r.B == 0
					}))
					hx.WaitFor(8*time.Second, func() bool {
						return len(env.Log.Filter(func(r evlog.Rec) bool {
							return r.K == "sim.tx" && r.Op == cbsim.OpObserveSeqno && r.VB == vbw && r.B == 0
						}))-base >= want
					})
				}
			}
		}
	}
	full, err := env.StartFull(cfg, opts)
	if err != nil {
		tr.StartErr = err.Error()
		tr.Log = env.Log.Snapshot()
		return tr
	}
	s.full = full
	if tr.APIPort != 0 {
		// the client signals readiness before its API server is necessarily accepting connections: the script talks to it
		// only once it does (bounded; a server that never comes up shows as failing requests in the steps)
		hx.WaitFor(3*time.Second, func() bool {
			c, err := net.DialTimeout("tcp", fmt.Sprintf("127.0.0.1:%d", tr.APIPort), 200*time.Millisecond)
			if err != nil {
				return false
			}
			c.Close()
			return true
		})
		env.Log.Add(evlog.Rec{K: "ctl.api.up", VB: -1})
	}
	closed := false
	for _, st := range spec.Steps {
		switch st.Op {
		case "append":
			var its []cbsim.Item
			for _, is := range st.Items {
				its = append(its, toItem(is))
			}
			if len(st.Items) > 0 && st.Items[0].SnapExtra > 0 {
				first := env.Sim.High(uint16(st.VB)) + 1
				last := first + uint64(len(its)) - 1
				for k := range its {
					its[k].SnapS, its[k].SnapE = first, last+uint64(st.Items[0].SnapExtra)
				}
			}
			env.Sim.Append(uint16(st.VB), its)
		case "ack":
			s.pmu.Lock()
			var pick []*hx.Delivered
			n := st.N
			if st.Sel == "all" || n > len(s.pending) {
				n = len(s.pending)
			}
			switch st.Sel {
			case "newest":
				pick = append(pick, s.pending[len(s.pending)-n:]...)
				s.pending = s.pending[:len(s.pending)-n]
				// newest first
				for i, j := 0, len(pick)-1; i < j; i, j = i+1, j-1 {
					pick[i], pick[j] = pick[j], pick[i]
				}
			case "random":
				for i := 0; i < n; i++ {
					k := s.rng.Intn(len(s.pending))
					pick = append(pick, s.pending[k])
					s.pending = append(s.pending[:k], s.pending[k+1:]...)
				}
			default:
				pick = append(pick, s.pending[:n]...)
				s.pending = s.pending[n:]
			}
			s.pmu.Unlock()
			for _, d := range pick {
				s.ackOne(d)
			}
		case "armhook": // the next N hits of hook point Sel are delayed by Ms (a goroutine descheduled there)
			n := st.N
			if n == 0 {
				n = 1
			}
			armHook(st.Sel, n, st.Ms)
		case "ackbg": // acknowledge the oldest pending delivery of vBucket VB in the background ("waitbg" joins)
			s.pmu.Lock()
			var d *hx.Delivered
			for k, p := range s.pending {
				if int(p.VB) == st.VB {
					d = p
					s.pending = append(s.pending[:k], s.pending[k+1:]...)
					break
				}
			}
			s.pmu.Unlock()
			if d != nil {
				s.bgWG.Add(1)
				go func() { defer s.bgWG.Done(); s.ackOne(d) }()
			}
		case "waitbg":
			s.bgWG.Wait()
		case "ackpar": // acknowledge everything pending, one goroutine per vBucket (per vBucket one at a time)
			s.pmu.Lock()
			byVB := map[uint16][]*hx.Delivered{}
			for _, d := range s.pending {
				byVB[d.VB] = append(byVB[d.VB], d)
			}
			s.pending = nil
			s.pmu.Unlock()
			var wg sync.WaitGroup
			for _, ds := range byVB {
				ds := ds
				if st.Sel == "random" {
					s.rng.Shuffle(len(ds), func(i, j int) { ds[i], ds[j] = ds[j], ds[i] })
				} else if st.Sel == "newest" {
					for i, j := 0, len(ds)-1; i < j; i, j = i+1, j-1 {
						ds[i], ds[j] = ds[j], ds[i]
					}
				}
				wg.Add(1)
				go func() {
					defer wg.Done()
					for _, d := range ds {
						s.ackOne(d)
					}
				}()
			}
			wg.Wait()
		case "reack": // acknowledge again an event that was already acknowledged (repetition / late ack)
			s.pmu.Lock()
			var d *hx.Delivered
			if len(s.acked) > 0 {
				d = s.acked[s.rng.Intn(len(s.acked))]
			}
			s.pmu.Unlock()
			if d != nil {
				s.vbLocks[d.VB].Lock()
				d.Ack()
				s.vbLocks[d.VB].Unlock()
			}
		case "commit":
			full.Commit()
		case "barrier":
			s.barrier()
		case "sleep":
			time.Sleep(time.Duration(st.Ms) * time.Millisecond)
		case "end":
			env.Sim.EndStreams(uint16(st.VB), st.St)
		case "failover": // the vBucket gets a new history branch (new vbUUID at the current high seqno)
			hi := env.Sim.High(uint16(st.VB))
			old := env.Sim.FailoverCopy(uint16(st.VB))
			env.Sim.SetFailover(uint16(st.VB), append([]cbsim.Failover{{UUID: 0xf00000 + uint64(st.N), Seq: hi}}, old...))
		case "waitreopen":
			vbw := st.VB
			want := st.N
			hx.WaitFor(8*time.Second, func() bool {
				n := 0
				for _, r := range env.Log.Filter(func(r evlog.Rec) bool { return r.K == "sim.rx" && r.Op == cbsim.OpDcpStreamReq && r.VB == vbw }) {
					_ = r
					n++
				}
				return n >= want
			})
		case "dropdcp":
			env.Sim.DropDCPConns()
		case "holdsave":
			s.pmu.Lock()
			s.holdCh = make(chan struct{})
			s.holdOnce = st.N == 1
			s.pmu.Unlock()
		case "releasesave":
			s.pmu.Lock()
			if s.holdCh != nil {
				close(s.holdCh)
				s.holdCh = nil
			}
			if s.heldCh != nil {
				close(s.heldCh)
				s.heldCh = nil
			}
			s.pmu.Unlock()
		case "commitold": // Commit() through the listener context of the first event of the session
			s.pmu.Lock()
			fd := s.firstDelivery
			s.pmu.Unlock()
			if fd != nil {
				env.Log.Add(evlog.Rec{K: "ctl.commit.call", VB: -1, S: "old-context"})
				fd.Commit()
				env.Log.Add(evlog.Rec{K: "ctl.commit.ret", VB: -1, S: "old-context"})
			}
		case "commitasync":
			go full.Commit()
			// give the save a chance to reach the store call
			hx.WaitFor(2*time.Second, func() bool { return env.Log.Count("ctl.commit.call") > env.Log.Count("ctl.commit.ret") || true })
			time.Sleep(2 * time.Millisecond)
		case "failnext": // the next N saves of the mem back end are rejected by the store
			n := st.N
			if n == 0 {
				n = 1
			}
			atomic.StoreInt32(&s.failNext, int32(n))
		case "stalecheck": // flush, acknowledge pending events older than their vBucket's tracked position, then count the writes of the next Commit()
			s.barrier()
			full.Commit()
			pos := map[uint16]uint64{}
			for _, t := range cons.Tracks() {
				if t.Off.SeqNo > pos[t.VB] {
					pos[t.VB] = t.Off.SeqNo
				}
			}
			s.pmu.Lock()
			var stale []*hx.Delivered
			var keep []*hx.Delivered
			for _, d := range s.pending {
				if d.Seq < pos[d.VB] && len(stale) < 6 {
					stale = append(stale, d)
				} else {
					keep = append(keep, d)
				}
			}
			s.pending = keep
			s.pmu.Unlock()
			for _, d := range stale {
				s.ackOne(d)
			}
			ck := &StoreCheck{NoIdle: true, Stale: true, StaleAcks: len(stale)}
			w0 := s.writeCount()
			ck.TCommitCall = evlog.Tick()
			full.Commit()
			ck.TCommitRet = evlog.Tick()
			ck.IdleWrites = s.writeCount() - w0
			ck.Store = s.readStore()
			if len(stale) > 0 {
				tr.Checks = append(tr.Checks, ck)
			}
		case "selfstopcheck": // the client stopped on its own (all streams ended): what does the store hold afterwards?
			if full.WaitStartReturn(time.Duration(st.Ms) * time.Millisecond) {
				ck := &StoreCheck{NoIdle: true}
				for _, r := range env.Log.Filter(func(r evlog.Rec) bool { return r.K == "cons.ack.ret" || r.K == "cons.track" }) {
					ck.TCommitCall = r.T + 1
				}
				ck.TCommitRet = evlog.Tick()
				ck.Store = s.readStore()
				tr.Checks = append(tr.Checks, ck)
			}
		case "waitlog": // wait (bounded) until the library has written a log line containing st.Sel (the key must be listed in LogDelayMs)
			key := st.Sel
			hx.WaitFor(12*time.Second, func() bool {
				return len(env.Log.Filter(func(r evlog.Rec) bool { return r.K == "log.delay" && r.S == key })) > 0
			})
		case "seqnofail":
			v := int32(1)
			if st.Sel == "off" {
				v = 0
			}
			atomic.StoreInt32(seqnoFail, v)
			env.Log.Add(evlog.Rec{K: "ctl.seqnofail", VB: -1, A: uint64(v)})
		case "collfail":
			atomic.StoreInt32(collFail, 1)
			env.Log.Add(evlog.Rec{K: "ctl.collfail", VB: -1})
			drv.NoteFlush("collfail armed")
		case "clearfail": // disarm "failnext" (a Commit() with nothing to save does not reach the store)
			atomic.StoreInt32(&s.failNext, 0)
		case "check":
			s.barrier()
			ck := &StoreCheck{}
			ck.TCommitCall = evlog.Tick()
			full.Commit()
			ck.TCommitRet = evlog.Tick()
			ck.Store = s.readStore()
			w0 := s.writeCount()
			ck.TIdleCall = evlog.Tick()
			full.Commit()
			ck.TIdleRet = evlog.Tick()
			ck.IdleWrites = s.writeCount() - w0
			tr.Checks = append(tr.Checks, ck)
		case "setcollhigh": // scripted collection-aware high seqno (may lie below the tracked position)
			env.Sim.SetCollHigh(uint16(st.VB), 0, uint64(st.N))
			for _, id := range spec.Colls {
				env.Sim.SetCollHigh(uint16(st.VB), id, uint64(st.N))
			}
		case "holdeh": // hold the library inside a lifecycle callback (st.Sel) until "releaseeh"
			ch := make(chan struct{})
			s.ehHolds = append(s.ehHolds, ch)
			name := st.Sel
			full.EH.SetHold(name, func() {
				env.Log.Add(evlog.Rec{K: "eh.held." + name, VB: -1})
				<-ch
			})
		case "waitheld":
			name := st.Sel
			hx.WaitFor(10*time.Second, func() bool { return env.Log.Count("eh.held."+name) > 0 })
		case "releaseeh":
			for _, n := range []string{"BRS", "ARS", "BRE", "ARE", "BSStart", "ASStart", "BSS", "ASS"} {
				full.EH.SetHold(n, nil)
			}
			for _, ch := range s.ehHolds {
				close(ch)
			}
			s.ehHolds = nil
		case "rebalanceapi":
			go hx.HTTPDo("GET", fmt.Sprintf("http://127.0.0.1:%d/rebalance", tr.APIPort), "", 30*time.Second)
		case "notify": // one membership-change notification: Sel = "put" (bus route, N/VB = member/total) or "get" (GET /rebalance); Ms != 0: do not wait for the HTTP reply
			do := func(sel string, member, total int) {
				id := atomic.AddInt64(&s.notifyCtr, 1)
				if sel == "get" {
					env.Log.Add(evlog.Rec{K: "ctl.notify.call", VB: -1, S: "get", A: uint64(id)})
					_, body, err := hx.HTTPDo("GET", fmt.Sprintf("http://127.0.0.1:%d/rebalance", tr.APIPort), "", 60*time.Second)
					res := body
					if err != nil {
						res = "error: " + err.Error()
					}
					env.Log.Add(evlog.Rec{K: "ctl.notify.ret", VB: -1, S: "get:" + res, A: uint64(id)})
					return
				}
				env.Log.Add(evlog.Rec{K: "ctl.notify.call", VB: -1, S: "put", A: uint64(id), B: uint64(member), C: uint64(total)})
				hx.HTTPDo("PUT", fmt.Sprintf("http://127.0.0.1:%d/membership/info", tr.APIPort), fmt.Sprintf(`{"memberNumber":%d,"totalMembers":%d}`, member, total), 60*time.Second)
				env.Log.Add(evlog.Rec{K: "ctl.notify.ret", VB: -1, S: "put", A: uint64(id), B: uint64(member), C: uint64(total)})
				env.Log.Add(evlog.Rec{K: "ctl.membership", VB: -1, A: uint64(member), B: uint64(total)})
			}
			if st.Ms != 0 {
				s.notifyWG.Add(1)
				go func(sel string, m, t int) { defer s.notifyWG.Done(); do(sel, m, t) }(st.Sel, st.N, st.VB)
				time.Sleep(3 * time.Millisecond)
			} else {
				do(st.Sel, st.N, st.VB)
			}
		case "waitcycles": // wait until N rebalance cycles completed (AfterRebalanceEnd) or the timeout
			want := st.N
			hx.WaitFor(time.Duration(st.Ms)*time.Millisecond, func() bool { return env.Log.Count("eh.ARE") >= want })
		case "quiet": // wait until no lifecycle callback has been seen for Ms milliseconds
			last := -1
			lastT := time.Now()
			for time.Since(lastT) < time.Duration(st.Ms)*time.Millisecond {
				n := 0
				for _, k := range []string{"eh.BRS", "eh.ARS", "eh.BRE", "eh.ARE", "eh.BSS", "eh.ASS", "eh.BSStart", "eh.ASStart"} {
					n += env.Log.Count(k)
				}
				if n != last {
					last, lastT = n, time.Now()
				}
				time.Sleep(5 * time.Millisecond)
			}
		case "releasereq":
			close(reqHoldCh)
		case "waithold":
			hx.WaitFor(8*time.Second, func() bool { return env.Log.Count("sim.hold") >= st.N })
		case "metrics":
			s.readMetrics()
		case "seqnohold": // sequence-number queries are answered Ms late from now on (0: at once again)
			atomic.StoreInt32(seqnoHold, int32(st.Ms))
		case "metricsbg": // a scrape in the background ("waitbg" joins), meant to straddle a close of the stream
			s.bgWG.Add(1)
			go func() {
				defer s.bgWG.Done()
				m := s.readMetrics()
				s.tr.readMu.Lock()
				m.Overlap = true
				s.tr.readMu.Unlock()
			}()
		case "waitstop": // wait (bounded) for the client to stop on its own
			full.WaitStartReturn(time.Duration(st.Ms) * time.Millisecond)
		case "read":
			s.readOffsets()
		case "readers":
			stop := make(chan struct{})
			s.stopReaders = append(s.stopReaders, stop)
			for i := 0; i < st.N; i++ {
				s.readerWG.Add(1)
				go func() {
					defer s.readerWG.Done()
					for {
						select {
						case <-stop:
							return
						default:
						}
						s.readOffsets()
						time.Sleep(200 * time.Microsecond)
					}
				}()
			}
		case "stopreaders":
			for _, c := range s.stopReaders {
				close(c)
			}
			s.stopReaders = nil
			s.readerWG.Wait()
		case "membership":
			env.Log.Add(evlog.Rec{K: "ctl.membership.call", VB: -1, A: uint64(st.N), B: uint64(st.VB)})
			hx.HTTPDo("PUT", fmt.Sprintf("http://127.0.0.1:%d/membership/info", tr.APIPort), fmt.Sprintf(`{"memberNumber":%d,"totalMembers":%d}`, st.N, st.VB), 5*time.Second)
			env.Log.Add(evlog.Rec{K: "ctl.membership", VB: -1, A: uint64(st.N), B: uint64(st.VB)})
		case "waitrebalance":
			want := st.N
			hx.WaitFor(10*time.Second, func() bool { return env.Log.Count("eh.ARE") >= want })
		case "checknocommit":
			// reference save = the last explicit Commit() that was called; everything settled before that
			// call must be in the store once it has returned (no further Commit() is issued here)
			hx.WaitFor(10*time.Second, func() bool { return env.Log.Count("ctl.commit.call") == env.Log.Count("ctl.commit.ret") })
			ck := &StoreCheck{NoIdle: true}
			for _, r := range env.Log.Filter(func(r evlog.Rec) bool { return r.K == "ctl.commit.call" }) {
				ck.TCommitCall = r.T
			}
			ck.TCommitRet = evlog.Tick()
			ck.Store = s.readStore()
			if ck.TCommitCall != 0 {
				tr.Checks = append(tr.Checks, ck)
			}
		case "absorbedcommit": // Commit() after traffic that only consisted of absorbed (reserved-key) events
			w0 := s.writeCount()
			full.Commit()
			env.Log.Add(evlog.Rec{K: "ctl.absorbedcommit", VB: -1, A: uint64(s.writeCount() - w0)})
		case "sigterm": // the process receives SIGTERM (the library listens for it once Start() runs)
			env.Log.Add(evlog.Rec{K: "ctl.sigterm", VB: -1})
			_ = syscall.Kill(os.Getpid(), syscall.SIGTERM)
		case "commitstorm": // Commit() in a tight loop from another goroutine until "stopstorm" (saves racing with acknowledgements)
			stop := make(chan struct{})
			s.stormStop = stop
			s.bgWG.Add(1)
			go func() {
				defer s.bgWG.Done()
				for {
					select {
					case <-stop:
						return
					default:
					}
					full.D.Commit()
				}
			}()
		case "stopstorm":
			if s.stormStop != nil {
				close(s.stormStop)
				s.stormStop = nil
				s.bgWG.Wait()
			}
		case "breakfile": // the directory of the checkpoint file disappears: the next file save is rejected by the file system
			if tr.FilePath != "" && st.Sel == "rename" {
				// ... or the file itself is replaced by a directory: a temporary file can still be written next to it, moving it
				// into place is what the file system refuses
				_ = os.Rename(tr.FilePath, tr.FilePath+".was")
				_ = os.Mkdir(tr.FilePath, 0o755)
				env.Log.Add(evlog.Rec{K: "ctl.breakfile", VB: -1, S: "rename"})
			} else if tr.FilePath != "" {
				_ = os.Rename(filepath.Dir(tr.FilePath), filepath.Dir(tr.FilePath)+".gone")
				env.Log.Add(evlog.Rec{K: "ctl.breakfile", VB: -1})
			}
		case "fixfile":
			if tr.FilePath != "" && st.Sel == "rename" {
				_ = os.Remove(tr.FilePath)
				_ = os.Rename(tr.FilePath+".was", tr.FilePath)
				env.Log.Add(evlog.Rec{K: "ctl.fixfile", VB: -1, S: "rename"})
			} else if tr.FilePath != "" {
				_ = os.Rename(filepath.Dir(tr.FilePath)+".gone", filepath.Dir(tr.FilePath))
				env.Log.Add(evlog.Rec{K: "ctl.fixfile", VB: -1})
			}
		case "extwrite": // another writer (a second member, an operator) stores a checkpoint for vBucket VB: seqno N, snapshot [N,N], current branch
			vbw := uint16(st.VB)
			uu := env.Sim.FailoverCopy(vbw)[0].UUID
			seq := uint64(st.N)
			switch spec.Backend {
			case "mem":
				s.md.Put(vbw, uu, seq, seq, seq)
			case "cb":
				doc := fmt.Sprintf(`{"checkpoint":{"snapshot":{"startSeqno":%d,"endSeqno":%d},"vbuuid":%d,"seqno":%d},"bucketUuid":"%s"}`, seq, seq, uu, seq, env.Sim.UUID)
				env.Sim.PutDoc(fmt.Sprintf("_connector:cbgo:%s:checkpoint:%d", cfg.Dcp.Group.Name, st.VB), []byte("{}"), map[string]json.RawMessage{"cbgo": json.RawMessage(doc)})
			}
			env.Log.Add(evlog.Rec{K: "ctl.extwrite", VB: st.VB, Seq: seq, D: uu, B: seq, C: seq})
		case "rebalancenowrite": // a rebalance (GET /rebalance) right after a completed save with nothing new: how many checkpoint writes does it cause?
			w0 := s.writeCount()
			are := env.Log.Count("eh.ARE")
			hx.HTTPDo("GET", fmt.Sprintf("http://127.0.0.1:%d/rebalance", tr.APIPort), "", 30*time.Second)
			ok := hx.WaitFor(10*time.Second, func() bool { return env.Log.Count("eh.ARE") > are })
			time.Sleep(30 * time.Millisecond)
			if ok {
				env.Log.Add(evlog.Rec{K: "ctl.rebalancewrites", VB: -1, A: uint64(s.writeCount() - w0)})
			}
		case "failpings": // mgmt pings fail from now on (health check rounds start failing)
			env.Sim.HTTPHook = func(path string) (int, []byte, bool, bool) {
				if path == "/" {
					env.Log.Add(evlog.Rec{K: "sim.pingfail", VB: -1})
					return 500, []byte("down"), true, false
				}
				return 0, nil, false, false
			}
		case "waitpingfail":
			hx.WaitFor(8*time.Second, func() bool { return env.Log.Count("sim.pingfail") >= 1 })
		case "observe": // script one replica's answer: VB, N = replica index, St = persisted seqno, Ms = uuid (0 = current branch)
			uu := uint64(st.Ms)
			if uu == 0 {
				uu = env.Sim.FailoverCopy(uint16(st.VB))[0].UUID
			}
			pv := uint64(st.St)
			if st.Sel == "high" { // exactly what the vBucket holds now (a realistic "everything persisted")
				pv = env.Sim.High(uint16(st.VB))
			}
			env.Sim.SetObserve(uint16(st.VB), st.N, uu, pv)
			env.Log.Add(evlog.Rec{K: "ctl.observe", VB: st.VB, A: uu, B: uint64(st.N), Seq: pv})
		case "mapchange": // a new cluster map assigns replica index N of vBucket VB to a node (it was unassigned); Sel "epoch": higher revEpoch, lower rev
			vbm, ix := uint16(st.VB), st.N
			env.Sim.SetObserve(vbm, ix, env.Sim.FailoverCopy(vbm)[0].UUID, uint64(st.St))
			// a node that holds no other copy of this vBucket (one copy per node, as in a real cluster map)
			used := map[int]bool{}
			for _, n := range env.Sim.ReplicaNodes(vbm) {
				used[n] = true
			}
			node := -1
			for k := 0; k < spec.Nodes; k++ {
				if c := (ix + k) % spec.Nodes; !used[c] {
					node = c
					break
				}
			}
			if node < 0 {
				env.Log.Add(evlog.Rec{K: "ctl.mapchange.skipped", VB: st.VB})
				break
			}
			sel := st.Sel
			env.Sim.SetReplicaNode(vbm, ix, node)
			env.Sim.BumpConfig(func() {
				if sel == "epoch" {
					env.Sim.SetRevision(env.Sim.Rev-4, env.Sim.RevEpoch+1) // BumpConfig adds 1: a newer epoch whose rev restarts below the old one
				}
			})
			rev, ep := env.Sim.Revision()
			env.Log.Add(evlog.Rec{K: "ctl.mapchange", VB: st.VB, A: uint64(rev), B: uint64(ep), C: uint64(ix), D: uint64(node)})
			// the client has the new map once every connection that polls the configuration was served it; the rollback
			// mitigation compares snapshots every ConfigWatchInterval (50 ms)
			pollers := map[int]bool{}
			for _, r := range env.Log.Filter(func(r evlog.Rec) bool { return r.K == "sim.cfg" }) {
				pollers[r.Cn] = true
			}
			hx.WaitFor(12*time.Second, func() bool {
				got := map[int]bool{}
				for _, r := range env.Log.Filter(func(r evlog.Rec) bool { return r.K == "sim.cfg" && int(r.A) == rev && int(r.B) == ep }) {
					got[r.Cn] = true
				}
				for cn := range pollers {
					if !got[cn] && env.Sim.ConnOpen(cn) {
						return false
					}
				}
				return len(got) > 0
			})
			// ... and it is acting on it once it polls the newly listed copy (bounded wait: a client that never does is what the
			// gate oracle is there to report)
			t0 := evlog.Tick()
			vbw := st.VB
			hx.WaitFor(10*time.Second, func() bool {
				return len(env.Log.Filter(func(r evlog.Rec) bool {
					return r.K == "sim.tx" && r.Op == cbsim.OpObserveSeqno && r.VB == vbw && int(r.B) == ix && r.T > t0
				})) > 0
			})
			time.Sleep(150 * time.Millisecond)
			env.Log.Add(evlog.Rec{K: "ctl.mapchange.known", VB: st.VB, C: uint64(ix)})
		case "bumpconfig": // the node publishes a newer revision of the (unchanged) cluster map; returns once every polling connection was served it
			env.Sim.BumpConfig(func() {})
			rev, ep := env.Sim.Revision()
			env.Log.Add(evlog.Rec{K: "ctl.bumpconfig", VB: -1, A: uint64(rev), B: uint64(ep)})
			pollers := map[int]bool{}
			for _, r := range env.Log.Filter(func(r evlog.Rec) bool { return r.K == "sim.cfg" }) {
				pollers[r.Cn] = true
			}
			if st.Sel == "nowait" {
				break
			}
			onlyDCP := st.Sel == "dcp" // return as soon as a connection of the DCP agent was served the new revision
			hx.WaitFor(12*time.Second, func() bool {
				got := map[int]bool{}
				for _, r := range env.Log.Filter(func(r evlog.Rec) bool { return r.K == "sim.cfg" && int(r.A) == rev && int(r.B) == ep }) {
					got[r.Cn] = true
					if onlyDCP && r.C == 1 {
						return true
					}
				}
				if onlyDCP {
					return false
				}
				for cn := range pollers {
					if !got[cn] && env.Sim.ConnOpen(cn) {
						return false
					}
				}
				return len(got) > 0
			})
			env.Log.Add(evlog.Rec{K: "ctl.bumpconfig.served", VB: -1})
		case "observefail": // the replica answers TMPFAIL (Sel "tmpfail"), BUSY ("busy") or normally ("ok") from now on
			s.pmu.Lock()
			if s.obsFail == nil {
				s.obsFail = map[[2]int]string{}
			}
			s.obsFail[[2]int{st.VB, st.N}] = st.Sel
			s.pmu.Unlock()
		case "waitrounds": // wait until N further complete observe rounds were answered for the vBucket
			vbw, want := st.VB, st.N
			base := env.Log.Filter(func(r evlog.Rec) bool {
				return r.K == "sim.tx" && r.Op == cbsim.OpObserveSeqno && r.VB == vbw && r.B == 0
			})
			hx.WaitFor(8*time.Second, func() bool {
				now := env.Log.Filter(func(r evlog.Rec) bool {
					return r.K == "sim.tx" && r.Op == cbsim.OpObserveSeqno && r.VB == vbw && r.B == 0
				})
				return len(now)-len(base) >= want
			})
		case "persistbelow": // replicas report a persisted seqno below what the vBucket holds: newer events wait in rollback mitigation
			n := uint64(st.N)
			if st.Sel == "high-1" { // everything but the newest item is persisted: that item (not its marker) waits
				n = env.Sim.High(uint16(st.VB)) - 1
			}
			env.Sim.SetObserve(uint16(st.VB), 0, env.Sim.FailoverCopy(uint16(st.VB))[0].UUID, n)
		case "holdcons": // the next delivery blocks inside ConsumeEvent until "releasecons"
			s.pmu.Lock()
			s.consHold = make(chan struct{})
			s.pmu.Unlock()
		case "waitblocked":
			hx.WaitFor(8*time.Second, func() bool { return env.Log.Count("cons.blocked") >= st.N })
		case "releasecons":
			s.pmu.Lock()
			if s.consHold != nil {
				close(s.consHold)
				s.consHold = nil
			}
			s.pmu.Unlock()
		case "waiteh": // wait for a lifecycle callback
			name := st.Sel
			want := st.N
			if want == 0 {
				want = 1
			}
			hx.WaitFor(10*time.Second, func() bool { return env.Log.Count("eh."+name) >= want })
		case "waitsave":
			hx.WaitFor(8*time.Second, func() bool { return env.Log.Count("md.save.call") > env.Log.Count("md.save.ret") })
		case "closeasync":
			tr.Post = &PostClose{}
			tr.Post.TCloseCall = evlog.Tick()
			go func() {
				env.Log.Add(evlog.Rec{K: "ctl.close.call", VB: -1})
				full.D.Close()
				env.Log.Add(evlog.Rec{K: "ctl.close.ret", VB: -1})
			}()
		case "waitclose":
			if tr.Post == nil {
				tr.Post = &PostClose{TCloseCall: evlog.Tick()}
				go func() {
					env.Log.Add(evlog.Rec{K: "ctl.close.call", VB: -1})
					full.D.Close()
					env.Log.Add(evlog.Rec{K: "ctl.close.ret", VB: -1})
				}()
			}
			to := time.Duration(st.Ms) * time.Millisecond
			if to == 0 {
				to = 30 * time.Second
			}
			tr.Post.Returned = full.WaitStartReturn(to)
			tr.CloseOK = tr.Post.Returned
			closed = true
			if !tr.Post.Returned {
				if hang, stacks := hx.ConfirmHang(env.Log, 2*time.Second); hang {
					tr.CloseHangStacks = stacks
				} else {
					tr.Notes = append(tr.Notes, "close slow but not hung")
				}
			} else {
				tr.Post.TStartRet = evlog.Tick()
				tr.Post.Store = s.readStore()
				// grace: three of the longest configured intervals, then the wire must be silent
				time.Sleep(150 * time.Millisecond)
				tg := evlog.Tick()
				time.Sleep(350 * time.Millisecond)
				for _, r := range env.Log.Snapshot() {
					if r.T > tg && r.K == "sim.rx" {
						tr.Post.RxAfter = append(tr.Post.RxAfter, fmt.Sprintf("op=0x%02x vb=%d key=%q conn=%d", r.Op, r.VB, r.S, r.Cn))
					}
					if r.T > tr.Post.TStartRet && r.K == "cons.deliver.call" {
						tr.Post.DeliverAfter++
					}
				}
				tr.Post.OpenConns = env.Sim.OpenConns()
			}
		case "waitcommits":
			hx.WaitFor(10*time.Second, func() bool { return env.Log.Count("ctl.commit.call") == env.Log.Count("ctl.commit.ret") })
		case "close":
			tr.CloseOK = full.Close(20 * time.Second)
			closed = true
		}
		if closed {
			break
		}
	}
	if spec.LingerMs > 0 {
		time.Sleep(time.Duration(spec.LingerMs) * time.Millisecond) // whatever of the library is still alive shows in this time
	}
	for _, c := range s.stopReaders {
		close(c)
	}
	s.readerWG.Wait()
	s.pmu.Lock()
	if s.consHold != nil {
		close(s.consHold)
		s.consHold = nil
	}
	if s.holdCh != nil {
		close(s.holdCh)
		s.holdCh = nil
	}
	if s.heldCh != nil {
		close(s.heldCh)
		s.heldCh = nil
	}
	s.pmu.Unlock()
	for _, n := range []string{"BRS", "ARS", "BRE", "ARE", "BSStart", "ASStart", "BSS", "ASS"} {
		full.EH.SetHold(n, nil)
	}
	for _, ch := range s.ehHolds {
		close(ch)
	}
	s.ehHolds = nil
	if !closed && !spec.NoFinalClose {
		tr.CloseOK = full.Close(20 * time.Second)
	}
	if !tr.CloseOK && !spec.NoFinalClose {
		tr.Notes = append(tr.Notes, "close did not complete in 20s")
	}
	tr.Log = env.Log.Snapshot()
	tr.Events = cons.Events()
	tr.Tracks = cons.Tracks()
	tr.buildSegs()
	if os.Getenv("VERIF_DUMP") != "" {
		for _, r := range tr.Log {
			switch r.K {
			case "sim.rx.ack", "sim.http":
				continue
			}
			if r.K == "sim.rx" || r.K == "sim.tx" {
				if r.Op != cbsim.OpDcpStreamReq && r.Op != cbsim.OpSubdocMutate && r.Op != cbsim.OpDcpCloseStream && !(r.Op == cbsim.OpObserveSeqno && r.K == "sim.tx" && os.Getenv("VERIF_DUMP") == "obs") {
					continue
				}
			}
			fmt.Fprintln(os.Stderr, "LOG", r.String())
		}
	}
	return tr
}

func (s *session) writeCount() int {
	return s.env.Log.Count("md.write") + s.env.Log.Count("sim.xattrwrite")
}

// readStore reads the durable checkpoints of every vBucket from the back end in use.
func (s *session) readStore() map[int][4]uint64 {
	out := map[int][4]uint64{}
	switch s.spec.Backend {
	case "mem":
		for vb := 0; vb < s.spec.NumVB; vb++ {
			if d, ok := s.md.Get(uint16(vb)); ok && d.Checkpoint != nil {
				t := [4]uint64{d.Checkpoint.VbUUID, d.Checkpoint.SeqNo, 0, 0}
				if d.Checkpoint.Snapshot != nil {
					t[2], t[3] = d.Checkpoint.Snapshot.StartSeqNo, d.Checkpoint.Snapshot.EndSeqNo
				}
				out[vb] = t
			}
		}
	case "file":
		b, err := os.ReadFile(s.tr.FilePath)
		if err == nil {
			var m map[string]struct {
				Checkpoint struct {
					Snapshot struct {
						StartSeqno uint64 `json:"startSeqno"`
						EndSeqno   uint64 `json:"endSeqno"`
					} `json:"snapshot"`
					Vbuuid uint64 `json:"vbuuid"`
					Seqno  uint64 `json:"seqno"`
				} `json:"checkpoint"`
			}
			if json.Unmarshal(b, &m) == nil {
				for k, v := range m {
					var vb int
					fmt.Sscan(k, &vb)
					out[vb] = [4]uint64{v.Checkpoint.Vbuuid, v.Checkpoint.Seqno, v.Checkpoint.Snapshot.StartSeqno, v.Checkpoint.Snapshot.EndSeqno}
				}
			}
		}
	default:
		for vb := 0; vb < s.spec.NumVB; vb++ {
			d := s.env.Sim.GetDoc(fmt.Sprintf("_connector:cbgo:%s:checkpoint:%d", s.tr.Cfg.Dcp.Group.Name, vb))
			if d == nil || d.Xattrs["cbgo"] == nil {
				continue
			}
			if _, t, ok := decodeXattrWrite(fmt.Sprintf("x:checkpoint:%d\x00cbgo\x00%s", vb, d.Xattrs["cbgo"])); ok {
				out[vb] = [4]uint64{t.uuid, t.seq, t.ss, t.se}
			}
		}
	}
	return out
}

// barrier waits until the last observable item of every vBucket has been observed, then for a short
// quiet period.
func (s *session) barrier() {
	type want struct {
		deliver bool
		seq     uint64
	}
	wants := map[int]want{}
	reqStart := map[int]uint64{}
	var lastOpen int64
	for _, r := range s.env.Log.Filter(func(r evlog.Rec) bool { return r.K == "eh.BSStart" }) {
		lastOpen = r.T
	}
	assigned := map[int]bool{}
	for _, r := range s.env.Log.Filter(func(r evlog.Rec) bool { return r.K == "sim.rx" && r.Op == cbsim.OpDcpStreamReq }) {
		reqStart[r.VB] = r.A
		if r.T >= lastOpen {
			assigned[r.VB] = true
		}
	}
	for vb := 0; vb < s.spec.NumVB; vb++ {
		if !assigned[vb] || s.env.Sim.OpenStreams(uint16(vb)) == 0 {
			continue // not in the range in effect (or its stream has ended): nothing will be observed for it
		}
		for _, it := range s.env.Sim.HistoryCopy(uint16(vb)) {
			if _, rb := s.spec.Rollbacks[vb]; rb && it.SeqNo <= s.spec.PreStore[vb][1] {
				continue // replayed at or below the checkpointed position after a rollback: filtered
			}
			if ps, ok := s.spec.PreStore[vb]; ok && it.SeqNo <= ps[1] {
				continue // below the resume position: never streamed
			}
			if it.SeqNo <= reqStart[vb] {
				continue // at or below the position the stream was requested from
			}
			if w, ok := observable(s.spec, it); ok {
				wants[vb] = want{w, it.SeqNo}
			}
		}
	}
	s.env.Log.Add(evlog.Rec{K: "ctl.barrier", VB: -1})
	reached := func() bool {
		got := map[int]uint64{}
		gotT := map[int]uint64{}
		for _, e := range s.cons.Events() {
			if e.Seq > got[int(e.VB)] {
				got[int(e.VB)] = e.Seq
			}
		}
		for _, t := range s.cons.Tracks() {
			if t.Off.SeqNo > gotT[int(t.VB)] {
				gotT[int(t.VB)] = t.Off.SeqNo
			}
		}
		for vb, w := range wants {
			if w.deliver && got[vb] < w.seq {
				return false
			}
			if !w.deliver && gotT[vb] < w.seq {
				return false
			}
		}
		return true
	}
	ok := hx.WaitFor(6*time.Second, reached)
	if !ok {
		// second chance: a loaded machine may stall a client for seconds; what is still missing after 16 s on open, idle
		// streams is not going to arrive
		ok = hx.WaitFor(10*time.Second, reached)
	}
	if !ok {
		s.tr.BarrierTimeouts++
		s.env.Log.Add(evlog.Rec{K: "ctl.barrier.timeout", VB: -1})
	}
	hx.WaitQuiet(s.env.Log, 8*time.Millisecond, 2*time.Second, func(r evlog.Rec) bool {
		return r.K == "sim.rx.ack" || r.Op == cbsim.OpNoop || r.Op == cbsim.OpGetClusterCfg || r.K == "sim.http"
	})
}

// observable: does the library show an externally visible reaction to this item (delivery or
// tracked-offset notification)? Returns (isDelivery, observable).
func observable(spec *SessSpec, it cbsim.Item) (bool, bool) {
	switch it.Kind {
	case cbsim.KSystem, cbsim.KSeqnoAdv:
		return false, true
	}
	if spec.SkipUntil != 0 && int64(it.Cas/1000000000) < spec.SkipUntil {
		return false, false
	}
	if reservedKey(it.Key) {
		return false, true
	}
	return true, true
}

func reservedKey(k []byte) bool {
	s := string(k)
	return len(s) >= len("_connector:cbgo:") && s[:len("_connector:cbgo:")] == "_connector:cbgo:" || len(s) >= 5 && s[:5] == "_txn:"
}

func (tr *Trace) buildSegs() {
	if tr.Env == nil {
		return
	}
	for vb := 0; vb < tr.Spec.NumVB; vb++ {
		m := map[uint64]cbsim.Item{}
		for _, it := range tr.Env.Sim.HistoryCopy(uint16(vb)) {
			m[it.SeqNo] = it
		}
		tr.Items[vb] = m
	}
	cur := map[int]*Seg{}
	pendingReq := map[uint64]*Seg{} // (conn, opaque) -> seg awaiting reply
	lastRollback := map[int]*Seg{}
	curMark := map[int][2]uint64{}
	for _, r := range tr.Log {
		switch {
		case r.K == "sim.rx" && r.Op == cbsim.OpDcpStreamReq:
			sg := &Seg{VB: r.VB, ReqT: r.T, Start: r.A, End: r.B, ReqUUID: r.C, SnapS: r.D, SnapE: r.E, ReplySt: -1}
			if prev := cur[r.VB]; prev != nil {
				prev.NextReqT = r.T
			}
			if lr := lastRollback[r.VB]; lr != nil {
				sg.Rollback = true
				sg.FailedSeq = lr.Start
				delete(lastRollback, r.VB)
			}
			tr.Segs[r.VB] = append(tr.Segs[r.VB], sg)
			cur[r.VB] = sg
			pendingReq[uint64(r.Cn)<<32|uint64(r.Opq)] = sg
			delete(curMark, r.VB)
		case r.K == "sim.tx" && r.Op == cbsim.OpDcpStreamReq:
			if sg := pendingReq[uint64(r.Cn)<<32|uint64(r.Opq)]; sg != nil {
				sg.ReplyT, sg.ReplySt, sg.ReplyUUID = r.T, r.St, r.A
				if r.St == cbsim.StRollback {
					lastRollback[sg.VB] = sg
				}
				delete(pendingReq, uint64(r.Cn)<<32|uint64(r.Opq))
			}
		case r.K == "sim.tx.marker":
			curMark[r.VB] = [2]uint64{r.A, r.B}
		case r.K == "sim.tx.item":
			if sg := cur[r.VB]; sg != nil {
				mk := curMark[r.VB]
				sg.Items = append(sg.Items, SentItem{T: r.T, Seq: r.Seq, Kind: byte(r.A), Key: r.S, Cas: r.C, MarkS: mk[0], MarkE: mk[1]})
			}
		case r.K == "sim.tx.end":
			if sg := cur[r.VB]; sg != nil && sg.EndT == 0 {
				sg.EndT, sg.EndSt = r.T, r.St
			}
		case r.K == "sim.rx" && r.Op == cbsim.OpDcpCloseStream:
			if sg := cur[r.VB]; sg != nil && sg.CloseT == 0 {
				sg.CloseT = r.T
			}
		}
	}
}

// settledMax returns, per vBucket, the furthest position settled (DESIGN §3 rule 1) by acks whose
// return record precedes tick `before` (0 = end) and by absorbed items observed through cons.track.
func (tr *Trace) ackedSeqs(vb int, useCall bool, before int64) []uint64 {
	var out []uint64
	k := "cons.ack.ret"
	if useCall {
		k = "cons.ack.call"
	}
	for _, r := range tr.Log {
		if r.K == k && r.VB == vb && (before == 0 || r.T < before) {
			out = append(out, r.Seq)
		}
	}
	sort.Slice(out, func(i, j int) bool { return out[i] < out[j] })
	return out
}

func (tr *Trace) count(kind string) int {
	n := 0
	for _, r := range tr.Log {
		if r.K == kind {
			n++
		}
	}
	return n
}

// abstract returns a hash of the tick-ordered record kinds with vBucket ids (values stripped).
func (tr *Trace) abstract() string {
	h := fnv.New64a()
	for _, r := range tr.Log {
		switch r.K {
		case "cons.deliver.call", "cons.ack.call", "cons.ack.ret", "cons.track", "md.save.call", "md.save.ret", "md.write", "ctl.commit.call", "ctl.commit.ret",
			"sim.tx.marker", "sim.tx.end", "sim.xattrwrite", "ctl.close.call":
			fmt.Fprintf(h, "%s/%d;", r.K, r.VB)
		case "sim.rx":
			if r.Op == cbsim.OpDcpStreamReq {
				fmt.Fprintf(h, "req/%d;", r.VB)
			}
		}
	}
	return fmt.Sprintf("%016x", h.Sum64())
}

func (tr *Trace) eventCounts() map[string]int {
	m := map[string]int{}
	for _, r := range tr.Log {
		switch r.K {
		case "cons.deliver.call", "cons.ack.call", "cons.track", "md.save.call", "md.write", "sim.tx.item", "sim.tx.marker", "sim.tx.end", "sim.xattrwrite", "ctl.commit.call":
			m[r.K]++
		case "sim.rx":
			if r.Op == cbsim.OpDcpStreamReq {
				m["sim.rx.streamreq"]++
			}
		}
	}
	return m
}

func (tr *Trace) countOp(op int) int {
	n := 0
	for _, r := range tr.Log {
		if r.K == "sim.tx" && r.Op == op {
			n++
		}
	}
	return n
}
