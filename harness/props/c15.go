package props

import (
	"encoding/json"
	"fmt"
	"math/rand"
	"os"
	"strings"
	"sync"
	"time"

	"verif/harness/cbsim"
	"verif/harness/drv"
	"verif/harness/evlog"
	"verif/harness/hx"
)

// C15 — start-up fails fast instead of running on an inconsistent or partial basis.

type c15Params struct {
	Fault       string         `json:"fault"`                  // none ahead load seqno seqno-omit failover open reopen reopen-during-open badmeta badmember badfile
	FileContent string         `json:"file_content,omitempty"` // badfile: empty | half | garbage | dir (what is found at the checkpoint file's path)
	NumVB       int            `json:"num_vb"`
	Nodes       int            `json:"nodes"`
	VBs         []int          `json:"vbs,omitempty"` // affected vBuckets
	Status      int            `json:"status,omitempty"`
	Silent      bool           `json:"silent,omitempty"`
	Mode        string         `json:"mode,omitempty"`
	AutoReset   string         `json:"auto_reset,omitempty"`
	Stored      map[int]uint64 `json:"stored,omitempty"` // vb -> checkpoint seqno
	Highs       map[int]uint64 `json:"highs,omitempty"`
	Backend     string         `json:"backend,omitempty"`
	OtherBucket bool           `json:"other_bucket,omitempty"` // the stored entries carry another bucket uuid (bucket dropped and recreated under the same name)
	ExpectStart bool           `json:"expect_start"`           // control case: must start and cover every vBucket
	WaitMs      int            `json:"wait_ms,omitempty"`
	RM          bool           `json:"rm,omitempty"` // rollback mitigation enabled: its first observer asks for the failover logs as well
}

func init() {
	drv.Register(&drv.Prop{
		ID: "C15", Level: "fault_enumeration", Parallel: 16, Batch: 1, MinConclusive: 20,
		Rule: "each case is one child process starting the real client against the simulated node with an injected defect: per-vBucket checkpoint below/equal/above the high seqno (any subset above), checkpoint load answered with an error status or not at all, " +
			"seqno query failing on one node or omitting a vBucket, failover-log failure in 'latest' mode, stream open answered by an error on one/several/all vBuckets, re-open refused 5 times after a transient end, a transient end while start-up is still opening other vBuckets, unknown metadata / membership type; single and double faults. " +
			"Oracle: with a defect the process must terminate (or NewDcp must return an error) and no stream may ever be requested from beyond the high seqno the node reported; control cases (equal/below, no fault) must start and hold an open stream for EVERY assigned vBucket. " +
			"Non-trivial: a fault on a strict subset of the vBuckets; distinct = distinct (fault, subset shape, status, mode)",
		Assumptions: []string{"silent-server variants (60 s hard-coded deadlines) only in the thorough tier", "a control case that fails to start is reported under C02, not here"},
		Gen: func(seed int64, tier string) []drv.Scenario {
			rng := rand.New(rand.NewSource(seed))
			var out []drv.Scenario
			add := func(p c15Params, to int) {
				out = append(out, drv.Scenario{Kind: p.Fault, Seed: seed, Params: mustJSON(p), Solo: true, TimeoutS: to})
			}
			subset := func(n int) []int {
				switch rng.Intn(3) {
				case 0:
					return []int{rng.Intn(n)}
				case 1:
					var v []int
					for i := 0; i < n; i++ {
						v = append(v, i)
					}
					return v
				}
				var v []int
				for i := 0; i < n; i++ {
					if rng.Intn(2) == 0 {
						v = append(v, i)
					}
				}
				if len(v) == 0 {
					v = []int{0}
				}
				return v
			}
			reps := 2
			if tier == "thorough" {
				reps = 10
			}
			for r := 0; r < reps; r++ {
				// checkpoint vs high seqno
				for _, rel := range []string{"below", "equal", "above", "above", "above"} {
					n := 2 + rng.Intn(5)
					p := c15Params{Fault: "ahead", NumVB: n, Nodes: 1 + rng.Intn(2), Stored: map[int]uint64{}, Highs: map[int]uint64{}, Backend: []string{"cb", "mem", "file"}[rng.Intn(3)]}
					for vb := 0; vb < n; vb++ {
						p.Highs[vb] = uint64(10 + rng.Intn(100))
						p.Stored[vb] = p.Highs[vb] - uint64(rng.Intn(5))
						if rel == "equal" {
							p.Stored[vb] = p.Highs[vb]
						}
					}
					// the stored entries may have been written for a bucket of the same name that no longer exists
					p.OtherBucket = p.Backend != "mem" && rng.Intn(2) == 0
					// auto-reset 'latest' is about a group WITHOUT checkpoints; one that lies beyond the vBucket stops the start-up all the same
					p.AutoReset = []string{"", "latest"}[rng.Intn(2)]
					if rel == "above" {
						p.VBs = subset(n)
						for _, vb := range p.VBs {
							p.Stored[vb] = p.Highs[vb] + uint64(1+rng.Intn(3))
						}
					} else {
						p.Fault = "none"
						p.ExpectStart = true
					}
					add(p, 60)
				}
				for _, st := range []int{0x24, 0x84, 0x82} {
					n := 2 + rng.Intn(4)
					add(c15Params{Fault: "load", NumVB: n, Nodes: 1, VBs: subset(n), Status: st, Backend: "cb"}, 60)
				}
				for _, st := range []int{0x24, 0x84, 0x86} {
					n := 2 + rng.Intn(4)
					add(c15Params{Fault: "seqno", NumVB: n, Nodes: 1 + rng.Intn(2), Status: st, Mode: []string{"", "finite"}[rng.Intn(2)]}, 60)
				}
				{
					n := 3 + rng.Intn(4)
					vb := rng.Intn(n)
					add(c15Params{Fault: "seqno-omit", NumVB: n, Nodes: 1, VBs: []int{vb}, Stored: map[int]uint64{vb: uint64(100 + rng.Intn(500))}, Backend: "mem"}, 60)
				}
				for _, st := range []int{0x24, 0x84} {
					n := 2 + rng.Intn(3)
					add(c15Params{Fault: "failover", NumVB: n, Nodes: 1, VBs: subset(n), Status: st, AutoReset: "latest"}, 60)
				}
				for _, st := range []int{0x24, 0x84, 0x82, 0x24} {
					n := 2 + rng.Intn(5)
					add(c15Params{Fault: "open", NumVB: n, Nodes: 1 + rng.Intn(2), VBs: subset(n), Status: st}, 60)
				}
				{
					n := 2 + rng.Intn(3)
					add(c15Params{Fault: "reopen", NumVB: n, Nodes: 1, VBs: []int{rng.Intn(n)}, Status: 0x24, WaitMs: 9000}, 90)
					add(c15Params{Fault: "reopen-during-open", NumVB: 2 + rng.Intn(3), Nodes: 1, ExpectStart: true}, 60)
				}
				// a checkpoint file that exists but cannot be read as checkpoints (truncated to nothing, cut in the middle, garbage)
				fc := []string{"empty", "half", "garbage", "dir"}
				for k := 0; k < 2; k++ {
					n := 2 + rng.Intn(3)
					st := map[int]uint64{}
					for vb := 0; vb < n; vb++ {
						st[vb] = uint64(1 + rng.Intn(15))
					}
					add(c15Params{Fault: "badfile", NumVB: n, Nodes: 1, Backend: "file", Stored: st, FileContent: fc[(r*2+k)%4], AutoReset: []string{"", "latest"}[rng.Intn(2)]}, 60)
				}
				add(c15Params{Fault: "seqno-on-reopen", NumVB: 2 + rng.Intn(3), Nodes: 1, Status: []int{0x24, 0x84}[rng.Intn(2)], WaitMs: 2500}, 90)
				add(c15Params{Fault: "load-on-reopen", NumVB: 2 + rng.Intn(3), Nodes: 1, Status: []int{0x24, 0x84}[rng.Intn(2)], Backend: "cb", WaitMs: 2500}, 90)
				add(c15Params{Fault: "badmeta", NumVB: 2, Nodes: 1}, 60)
				add(c15Params{Fault: "badmember", NumVB: 2, Nodes: 1}, 60)
				// double faults
				{
					n := 3 + rng.Intn(3)
					p := c15Params{Fault: "open", NumVB: n, Nodes: 1, VBs: []int{0}, Status: 0x24, Stored: map[int]uint64{1: 500}, Highs: map[int]uint64{1: 20}, Backend: "mem"}
					add(p, 60)
				}
				add(c15Params{Fault: "none", NumVB: 2 + rng.Intn(5), Nodes: 1 + rng.Intn(2), ExpectStart: true}, 60)
			}
			// a member that owns several hundred vBuckets on a node that answers stream requests slowly: every one of them is
			// requested (own random source: the cases above keep their parameters)
			wr := rand.New(rand.NewSource(seed*83 + 11))
			for k := 0; k < reps/2+1; k++ {
				add(c15Params{Fault: "wide", NumVB: 160 + wr.Intn(360), Nodes: 1 + wr.Intn(2), ExpectStart: true, WaitMs: 300, Status: 2 + wr.Intn(6)}, 90)
			}
			// a failing failover-log query of the rollback mitigation's start-up (no checkpoint reset involved)
			// (temporary failure and busy included: for this query they are errors like any other)
			for k, st := range []int{0x24, 0x84, 0x86, 0x85} {
				add(c15Params{Fault: "failover", NumVB: 3, Nodes: 1, VBs: []int{k % 3}, Status: st, RM: true}, 60)
			}
			if tier == "thorough" {
				add(c15Params{Fault: "open", NumVB: 3, Nodes: 1, VBs: []int{1}, Silent: true, WaitMs: 70000}, 120)
				add(c15Params{Fault: "load", NumVB: 2, Nodes: 1, VBs: []int{0}, Silent: true, Backend: "cb", WaitMs: 15000}, 60)
				add(c15Params{Fault: "seqno", NumVB: 2, Nodes: 1, Silent: true, WaitMs: 70000}, 120)
			}
			return out
		},
		Run: runC15,
		OnDeath: func(sc drv.Scenario, out drv.ChildOutcome) drv.Result {
			var p c15Params
			_ = json.Unmarshal(sc.Params, &p)
			base := drv.Result{Checks: 1, Nontrivial: len(p.VBs) > 0 && len(p.VBs) < p.NumVB || p.Fault == "seqno" || p.Fault == "reopen", TraceHash: c15Hash(&p),
				Events: map[string]int{"process_deaths": 1}, Sample: map[string]any{"fault": p.Fault, "vbuckets": p.NumVB, "affected": p.VBs, "status": p.Status, "outcome": drv.PanicLine(out.Stderr), "notes": out.Notes}}
			for _, n := range out.Notes {
				if strings.HasPrefix(n, "AHEAD ") {
					base.Verdict, base.Clause, base.FindingKey, base.Detail = drv.Violated, "ahead-request", "C15/request-beyond-high-seqno", "a stream was requested from a position the server had not reached: "+n
					return base
				}
			}
			if out.TimedOut || !drv.IsLibraryPanic(out.Stderr) {
				base.Verdict, base.Detail = drv.Inconclusive, "child ended without a panic: "+drv.PanicLine(out.Stderr)
				return base
			}
			if p.ExpectStart {
				base.Verdict = drv.Inconclusive
				base.Detail = "control case died: " + drv.PanicLine(out.Stderr)
				base.Foreign = []string{"C02: control case (no defect) did not start: " + drv.PanicLine(out.Stderr)}
				if p.Fault == "reopen-during-open" {
					base.Verdict, base.Clause, base.FindingKey = drv.Violated, "reopen-during-open", "C15/died-on-transient-end-during-open"
				}
				return base
			}
			base.Verdict = drv.Held
			return base
		},
	})
}

func c15Hash(p *c15Params) string {
	shape := "one"
	if len(p.VBs) == p.NumVB {
		shape = "all"
	} else if len(p.VBs) > 1 {
		shape = "some"
	}
	return drv.Hash(p.Fault, shape, fmt.Sprint(p.Status, p.Silent, p.Mode, p.Backend, p.Nodes, p.ExpectStart, p.NumVB, p.OtherBucket, p.RM))
}

func runC15(sc drv.Scenario) drv.Result {
	var p c15Params
	if err := json.Unmarshal(sc.Params, &p); err != nil {
		return drv.Result{Verdict: drv.Inconclusive, Detail: err.Error()}
	}
	env, err := hx.NewEnv(hx.EnvOpts{NumVB: p.NumVB, Nodes: p.Nodes})
	if err != nil {
		return drv.Result{Verdict: drv.Inconclusive, Detail: err.Error()}
	}
	defer env.Close()
	in := func(vb int) bool {
		for _, v := range p.VBs {
			if v == vb {
				return true
			}
		}
		return false
	}
	for vb := 0; vb < p.NumVB; vb++ {
		h := uint64(20)
		if v, ok := p.Highs[vb]; ok {
			h = v
		}
		var its []cbsim.Item
		its = append(its, cbsim.Item{Kind: cbsim.KMutation, Key: []byte(fmt.Sprintf("k%d", vb)), Value: []byte("v"), SeqNo: h})
		env.Sim.Append(uint16(vb), its)
	}
	cfg := env.BaseConfig()
	cfg.Dcp.Mode = "infinite"
	if p.Mode != "" {
		cfg.Dcp.Mode = "finite"
	}
	if p.AutoReset != "" {
		cfg.Checkpoint.AutoReset = p.AutoReset
	}
	if p.RM {
		cfg.RollbackMitigation.Disabled = false
	}
	var md *hx.MemMetadata
	storedBucket := env.Sim.UUID
	if p.OtherBucket {
		storedBucket = "0b5c0ffee0b5c0ffee0b5c0ffee0b5c0"
	}
	switch p.Backend {
	case "mem":
		md = hx.NewMemMetadata(env.Log)
		for vb, s := range p.Stored {
			md.Put(uint16(vb), 0xabc000+uint64(vb), s, s, s)
		}
	case "file":
		sp := &SessSpec{NumVB: p.NumVB}
		_ = sp
		path := fmt.Sprintf("%s/c15-%d.json", tmpDir(), time.Now().UnixNano())
		m := map[string]any{}
		for vb := 0; vb < p.NumVB; vb++ {
			s := p.Stored[vb]
			m[fmt.Sprint(vb)] = map[string]any{"checkpoint": map[string]any{"vbuuid": 0xabc000 + uint64(vb), "seqno": s, "snapshot": map[string]any{"startSeqno": s, "endSeqno": s}}, "bucketUuid": storedBucket}
		}
		b, _ := json.MarshalIndent(m, "", "  ")
		switch p.FileContent {
		case "empty":
			b = []byte{}
		case "half":
			b = b[:len(b)/2]
		case "garbage":
			b = []byte("\x00\x01not json at all\n")
		}
		if p.FileContent == "dir" {
			_ = os.Mkdir(path, 0o755) // the path exists but cannot be read as a file (EISDIR)
		} else {
			writeFile(path, b)
		}
		defer removeFile(path)
		cfg.Metadata.Type = "file"
		cfg.Metadata.Config = map[string]string{"fileName": path}
	default:
		for vb, s := range p.Stored {
			doc := fmt.Sprintf(`{"checkpoint":{"snapshot":{"startSeqno":%d,"endSeqno":%d},"vbuuid":%d,"seqno":%d},"bucketUuid":"%s"}`, s, s, 0xabc000+uint64(vb), s, storedBucket)
			env.Sim.PutDoc(fmt.Sprintf("_connector:cbgo:%s:checkpoint:%d", cfg.Dcp.Group.Name, vb), []byte("{}"), map[string]json.RawMessage{"cbgo": json.RawMessage(doc)})
		}
	}
	if p.Fault == "seqno-on-reopen" || p.Fault == "load-on-reopen" {
		cfg.API.Disabled = false
		cfg.API.Port = hx.FreePort()
		cfg.Dcp.Group.Membership.RebalanceDelay = 30 * time.Millisecond
	}
	switch p.Fault {
	case "badmeta":
		cfg.Metadata.Type = "redis"
	case "badmember":
		cfg.Dcp.Group.Membership.Type = "zookeeper"
	}
	// fault hook + "never beyond the high seqno" monitor
	var mu sync.Mutex
	nreq := map[int]int{}
	reported := map[int]uint64{}
	holdVB1 := make(chan struct{})
	armed := false // faults that hit the reopen of a rebalance are switched on after start-up
	hit := false   // ... and this says that the armed fault has actually answered a request
	env.Sim.Hook = func(r *cbsim.Req) *cbsim.Action {
		mu.Lock()
		defer mu.Unlock()
		act := func() *cbsim.Action {
			if p.Silent {
				return &cbsim.Action{NoReply: true}
			}
			return &cbsim.Action{HasStatus: true, Status: uint16(p.Status)}
		}
		switch r.Op {
		case cbsim.OpSubdocLookup:
			if p.Fault == "load-on-reopen" && armed && strings.Contains(string(r.Key), ":checkpoint:") {
				hit = true
				return act()
			}
			if p.Fault == "load" {
				for _, vb := range p.VBs {
					if strings.HasSuffix(string(r.Key), fmt.Sprintf(":checkpoint:%d", vb)) {
						return act()
					}
				}
			}
		case cbsim.OpGetAllVBSeqnos:
			if p.Fault == "seqno" && r.Node == 0 {
				return act()
			}
			if p.Fault == "seqno-on-reopen" && armed {
				hit = true
				return act()
			}
			if p.Fault == "seqno-omit" {
				var out []byte
				for vb := 0; vb < p.NumVB; vb++ {
					if in(vb) {
						continue
					}
					b := make([]byte, 10)
					b[0], b[1] = byte(vb>>8), byte(vb)
					h := env.Sim.High(uint16(vb))
					for i := 0; i < 8; i++ {
						b[9-i] = byte(h >> (8 * uint(i)))
					}
					out = append(out, b...)
				}
				return &cbsim.Action{HasStatus: true, Status: 0, Value: out}
			}
		case cbsim.OpDcpFailoverLog:
			if p.Fault == "failover" && in(int(r.VB)) {
				return act()
			}
		case cbsim.OpDcpStreamReq:
			nreq[int(r.VB)]++
			var start uint64
			if len(r.Extras) >= 16 {
				for i := 0; i < 8; i++ {
					start = start<<8 | uint64(r.Extras[8+i])
				}
			}
			h := env.Sim.High(r.VB)
			if p.Fault == "seqno-omit" && in(int(r.VB)) {
				h = 0 // the node never reported a position for this vBucket
			}
			_ = reported
			if start > h {
				drv.NoteFlush("AHEAD vb=%d start=%d high-seqno-reported=%d", r.VB, start, h)
			}
			if p.Fault == "wide" {
				// Status doubles as the answer delay in ms; answers overtake each other as they do on a loaded node
				return &cbsim.Action{Delay: time.Duration(p.Status) * time.Millisecond, Async: true}
			}
			if p.Fault == "open" && in(int(r.VB)) && nreq[int(r.VB)] == 1 {
				return act()
			}
			if p.Fault == "reopen" && in(int(r.VB)) && nreq[int(r.VB)] >= 2 {
				return act()
			}
			if p.Fault == "reopen-during-open" && r.VB == 1 && nreq[1] == 1 {
				return &cbsim.Action{Hold: holdVB1, Async: true}
			}
		}
		return nil
	}
	cons := &hx.Consumer{Log: env.Log}
	cons.OnEvent = func(d *hx.Delivered) { d.Ack() }
	opts := hx.FullOpts{Consumer: cons, ReadyTimeout: 100 * time.Second}
	if md != nil {
		opts.Metadata = md
	}
	if p.Fault == "reopen-during-open" {
		opts.WhileStarting = func() {
			// vb 0 is open, vb 1's request is held: end vb 0 transiently, wait for its re-request, then release vb 1
			hx.WaitFor(10*time.Second, func() bool { return env.Sim.OpenStreams(0) == 1 })
			env.Sim.EndStreams(0, 2)
			hx.WaitFor(3*time.Second, func() bool {
				mu.Lock()
				defer mu.Unlock()
				return nreq[0] >= 2
			})
			close(holdVB1)
		}
	}
	drv.NoteFlush("starting fault=%s", p.Fault)
	full, err := env.StartFull(cfg, opts)
	res := drv.Result{Checks: 1, Nontrivial: len(p.VBs) > 0 && len(p.VBs) < p.NumVB || p.Fault == "seqno" || p.Fault == "reopen" || p.Fault == "reopen-during-open", TraceHash: c15Hash(&p), Events: map[string]int{}}
	res.Sample = map[string]any{"fault": p.Fault, "vbuckets": p.NumVB, "affected": p.VBs, "status": p.Status, "expect_start": p.ExpectStart}
	if err != nil {
		if p.ExpectStart {
			return drv.Result{Verdict: drv.Inconclusive, Detail: "control case did not start: " + err.Error(), Foreign: []string{"C02: control case did not start: " + err.Error()}}
		}
		if strings.Contains(err.Error(), "not ready within") {
			return drv.Result{Verdict: drv.Inconclusive, Detail: "neither started nor terminated within 100 s"}
		}
		res.Verdict = drv.Held // start-up returned an error instead of streaming
		res.Sample.(map[string]any)["outcome"] = "start error: " + err.Error()
		return res
	}
	if p.Fault == "reopen" {
		env.Sim.EndStreams(uint16(p.VBs[0]), 2)
	}
	if p.Fault == "seqno-on-reopen" || p.Fault == "load-on-reopen" {
		// start-up went fine; the same defect at the reopen of a rebalance (GET /rebalance) must end the client just the same
		mu.Lock()
		armed = true
		mu.Unlock()
		drv.NoteFlush("rebalance requested with fault armed")
		// the API server may still be coming up right after readiness: ask until it answers, then wait (bounded, generous)
		// until the reopen has run into the fault - the clock for "still running" starts there, not at the request
		url := fmt.Sprintf("http://127.0.0.1:%d/rebalance", cfg.API.Port)
		asked := hx.WaitFor(10*time.Second, func() bool {
			code, _, err := hx.HTTPDo("GET", url, "", 5*time.Second)
			return err == nil && code == 200
		})
		reached := hx.WaitFor(20*time.Second, func() bool {
			mu.Lock()
			defer mu.Unlock()
			return hit
		})
		if !asked || !reached {
			full.Close(10 * time.Second)
			return drv.Result{Verdict: drv.Inconclusive, Detail: fmt.Sprintf("the rebalance did not run into the armed fault (request answered: %v, fault hit: %v)", asked, reached)}
		}
		drv.NoteFlush("fault hit at the reopen")
	}
	wait := 1500
	if p.WaitMs > 0 {
		wait = p.WaitMs
	}
	time.Sleep(time.Duration(wait) * time.Millisecond)
	// still alive
	covered := 0
	var missing []int
	for vb := 0; vb < p.NumVB; vb++ {
		if env.Sim.OpenStreams(uint16(vb)) >= 1 {
			covered++
		} else {
			missing = append(missing, vb)
		}
	}
	res.Events["deliveries"] = cons.Count()
	res.Events["covered_vbuckets"] = covered
	for _, r := range env.Log.Filter(func(r evlog.Rec) bool { return r.K == "sim.rx" && r.Op == cbsim.OpDcpStreamReq }) {
		_ = r
		res.Events["stream_requests"]++
	}
	if p.ExpectStart {
		if covered != p.NumVB && p.Mode == "" {
			res.Verdict, res.Clause, res.FindingKey = drv.Violated, "partial", "C15/partial-session"
			shown := missing
			if len(shown) > 12 {
				shown = shown[:12]
			}
			res.Detail = fmt.Sprintf("the session runs but %d of %d vBuckets have no open stream (first ones: %v; fault %s): it silently covers only part of its assignment", len(missing), p.NumVB, shown, p.Fault)
			return res
		}
		res.Verdict = drv.Held
		full.Close(10 * time.Second)
		return res
	}
	res.Verdict, res.Clause = drv.Violated, "survived"
	res.FindingKey = "C15/survived/" + p.Fault
	res.Detail = fmt.Sprintf("defect %q on vBuckets %v (status 0x%x, silent %v, mode %q): the client is still running %d ms after readiness with %d deliveries and %d/%d vBuckets streaming", p.Fault, p.VBs, p.Status, p.Silent, p.Mode, wait, cons.Count(), covered, p.NumVB)
	return res
}
