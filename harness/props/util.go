package props

import "encoding/json"

func jsonUnmarshal(b []byte, v any) error { return json.Unmarshal(b, v) }
