package props

import (
	"encoding/json"
	"os"
)

func jsonUnmarshal(b []byte, v any) error { return json.Unmarshal(b, v) }

func tmpDir() string { return os.TempDir() }

func writeFile(p string, b []byte) { _ = os.WriteFile(p, b, 0o644) }

func removeFile(p string) { _ = os.Remove(p) }
