package props

import (
	"encoding/binary"
	"encoding/json"
	"fmt"
	"math/rand"
	"strings"
	"time"

	"verif/harness/cbsim"
	"verif/harness/drv"
)

// C16 — exposed metrics and state endpoints tell the truth.

func c16Spec(rng *rand.Rand, i int) (*SessSpec, string) {
	sp := &SessSpec{NumVB: 2 + rng.Intn(6), Nodes: 1 + rng.Intn(2), AckSeed: rng.Int63(), Backend: "mem", Backlog: map[int][][]ItemSpec{}, API: true}
	sp.PNow, sp.PDefer = 0.5, 0.4
	o := &HistOpts{NumVB: sp.NumVB, PReserved: 0.12, PSystem: 0.06, PSeqAdv: 0.15, MaxItems: 5}
	ctr := 0
	kind := []string{"scrape", "scrape", "lowhigh", "reopen", "closed", "rebalance"}[i%6]
	if i%12 == 1 {
		kind = "open-end"
	}
	if i%12 == 7 {
		kind = "notified"
	}
	if i%24 == 5 {
		kind = "notified-during-open"
	}
	if kind == "scrape" && i%3 == 0 {
		// a skip window: dropped events are not counted
		sp.SkipUntil = time.Now().Unix() - int64(rng.Intn(3))
		o.SkipUntil = sp.SkipUntil
		o.CasAround = true
	}
	for vb := 0; vb < sp.NumVB; vb++ {
		for s := 0; s < 1+rng.Intn(2); s++ {
			sp.Backlog[vb] = append(sp.Backlog[vb], genSnap(rng, o, &ctr))
		}
	}
	round := func() {
		for k := 0; k < 1+rng.Intn(4); k++ {
			sp.Steps = append(sp.Steps, Step{Op: "append", VB: rng.Intn(sp.NumVB), Items: genSnap(rng, o, &ctr)})
			if rng.Intn(2) == 0 {
				sp.Steps = append(sp.Steps, Step{Op: "ack", Sel: "random", N: 1 + rng.Intn(3)})
			}
		}
		if rng.Intn(3) == 0 {
			sp.Steps = append(sp.Steps, Step{Op: "commit"})
		}
		sp.Steps = append(sp.Steps, Step{Op: "barrier"})
	}
	if i%12 == 10 {
		// finite mode: the lag is measured against what the server holds now, not against the end sampled at open. The consumer
		// is held inside its first delivery (nothing settles, the client cannot finish) while the vBuckets receive more documents.
		kind = "finite-lag"
		sp.Mode = "finite"
		sp.PNow, sp.PDefer = 1, 0
		sp.HoldConsAtStart = true
		sp.Steps = []Step{{Op: "waitblocked", N: 1}}
		for vb := 0; vb < sp.NumVB; vb++ {
			for k := 0; k < 1+rng.Intn(2); k++ {
				sp.Steps = append(sp.Steps, Step{Op: "append", VB: vb, Items: genSnap(rng, o, &ctr)})
			}
		}
		sp.Steps = append(sp.Steps, Step{Op: "metrics"}, Step{Op: "releasecons"}, Step{Op: "waitstop", Ms: 4000})
		return sp, kind
	}
	sp.Steps = append(sp.Steps, Step{Op: "barrier"}, Step{Op: "metrics"})
	switch kind {
	case "notified":
		// a new numbering has been announced but the stream is still open on the old assignment (the library is held at the very
		// beginning of the rebalance): member number, group size and range are still those of the assignment in effect
		sp.Membership = "dynamic"
		sp.FirstInfo = [2]int{1, 1}
		round()
		total := 2 + rng.Intn(2)
		if total > sp.NumVB {
			total = sp.NumVB
		}
		sp.Steps = append(sp.Steps, Step{Op: "holdeh", Sel: "BRS"}, Step{Op: "membership", N: 1 + rng.Intn(total), VB: total}, Step{Op: "waitheld", Sel: "BRS"}, Step{Op: "metrics"},
			Step{Op: "releaseeh"}, Step{Op: "waitrebalance", N: 1}, Step{Op: "barrier"}, Step{Op: "metrics"})
	case "notified-during-open":
		// a second numbering is announced while the reopen of the first rebalance is about to finish (the library is held in
		// AfterStreamStart): until the next rebalance has reopened the streams, member number, group size and range are those
		// of the streams that are open
		sp.Membership = "kubernetesHa"
		sp.RebalanceDelayMs = 500
		sp.FirstInfo = [2]int{1, 1}
		round()
		t1 := 2
		if sp.NumVB >= 3 && rng.Intn(2) == 0 {
			t1 = 3
		}
		sp.Steps = append(sp.Steps, Step{Op: "holdeh", Sel: "ASStart"}, Step{Op: "notify", Sel: "put", N: 1, VB: t1, Ms: 1}, Step{Op: "waitheld", Sel: "ASStart"},
			Step{Op: "notify", Sel: "put", N: 1, VB: 1, Ms: 1}, Step{Op: "sleep", Ms: 40}, Step{Op: "releaseeh"}, Step{Op: "waitrebalance", N: 1}, Step{Op: "sleep", Ms: 30}, Step{Op: "metrics"},
			Step{Op: "waitrebalance", N: 2}, Step{Op: "barrier"}, Step{Op: "metrics"})
	case "open-end":
		// a vBucket stream ends for good while the streams of the assignment are still being opened (the last stream request is
		// unanswered): the active-stream gauge must read assigned - 1 afterwards
		sp.ReqHold = map[int]int{sp.NumVB - 1: 1}
		sp.StartSteps = []Step{{Op: "waithold", N: 1}, {Op: "waitopen", VB: 0}, {Op: "end", VB: 0, St: []uint32{0, 7, 6}[rng.Intn(3)]}, {Op: "sleep", Ms: 40}, {Op: "releasereq"}}
		sp.Steps = append(sp.Steps, Step{Op: "append", VB: 1, Items: genSnap(rng, o, &ctr)}, Step{Op: "barrier"}, Step{Op: "metrics"})
	case "scrape":
		for r := 0; r < 1+rng.Intn(3); r++ {
			round()
			sp.Steps = append(sp.Steps, Step{Op: "metrics"})
		}
	case "lowhigh":
		round()
		// the server reports high seqnos below / equal / above the tracked position
		for vb := 0; vb < sp.NumVB; vb++ {
			switch rng.Intn(3) {
			case 0:
				sp.Steps = append(sp.Steps, Step{Op: "setcollhigh", VB: vb, N: rng.Intn(2)})
			case 1:
				sp.Steps = append(sp.Steps, Step{Op: "setcollhigh", VB: vb, N: 1000 + rng.Intn(1000)})
			}
		}
		sp.Steps = append(sp.Steps, Step{Op: "metrics"})
		if i%12 == 2 {
			// ... then the node refuses the query of the next scrape, with progress in between: that scrape fails or says
			// nothing about lag; afterwards scrapes are right again
			sp.Steps = append(sp.Steps, Step{Op: "append", VB: 0, Items: genSnap(rng, o, &ctr)}, Step{Op: "barrier"}, Step{Op: "seqnofail"}, Step{Op: "metrics"}, Step{Op: "seqnofail", Sel: "off"}, Step{Op: "metrics"})
		}
	case "reopen":
		round()
		vb := rng.Intn(sp.NumVB)
		sp.Steps = append(sp.Steps, Step{Op: "metrics"}, Step{Op: "end", VB: vb, St: transientStatus[rng.Intn(4)]}, Step{Op: "waitreopen", VB: vb, N: 2},
			Step{Op: "append", VB: vb, Items: genSnap(rng, o, &ctr)}, Step{Op: "barrier"}, Step{Op: "metrics"})
	case "closed":
		// scrape while the stream is closed: the library is held inside AfterStreamStop of a rebalance
		sp.Membership = "dynamic"
		sp.FirstInfo = [2]int{1, 1}
		round()
		sp.Steps = append(sp.Steps, Step{Op: "holdeh", Sel: "ASS"}, Step{Op: "rebalanceapi"}, Step{Op: "waitheld", Sel: "ASS"},
			Step{Op: "metrics"}, Step{Op: "read"}, Step{Op: "releaseeh"}, Step{Op: "waitrebalance", N: 1}, Step{Op: "barrier"}, Step{Op: "metrics"})
	case "rebalance":
		sp.Membership = "dynamic"
		sp.FirstInfo = [2]int{1, 1}
		round()
		nreb := 1 + rng.Intn(3)
		total := 1
		for r := 0; r < nreb; r++ {
			nt := 1 + rng.Intn(3)
			if nt > sp.NumVB {
				nt = sp.NumVB
			}
			if nt == total {
				nt = total%3 + 1
				if nt > sp.NumVB {
					nt = 1
				}
			}
			if nt == total {
				continue
			}
			total = nt
			sp.Steps = append(sp.Steps, Step{Op: "membership", N: 1 + rng.Intn(total), VB: total}, Step{Op: "waitrebalance", N: r + 1}, Step{Op: "barrier"}, Step{Op: "metrics"})
		}
	}
	return sp, kind
}

func lbl(name string, vb int) string { return fmt.Sprintf(`%s{vbId="%d"}`, name, vb) }

func OracleMetrics(tr *Trace) ([]Finding, int) {
	var fs []Finding
	n := 0
	sp := tr.Spec
	var prevCounters map[string]float64
	for mi, m := range tr.Metrics {
		// did the node answer a sequence-number query of this scrape with an error?
		seqnoErr := false
		for _, r := range tr.Log {
			if r.T > m.TCall && r.T < m.TRet && r.K == "sim.tx" && r.Op == cbsim.OpGetAllVBSeqnos && r.St != 0 {
				seqnoErr = true
			}
		}
		if m.Overlap {
			n++
			if !m.OK {
				fs = append(fs, Finding{"C16", "scrape", "C16/scrape-failed", fmt.Sprintf("scrape %d, which overlapped a close of the stream, failed: %s", mi, m.Err)})
			}
			continue
		}
		if !m.OK && seqnoErr {
			n++
			continue // the scrape claims nothing: acceptable
		}
		if m.OK && seqnoErr {
			n++
			for k, v := range m.Vals {
				if strings.HasPrefix(k, "cbgo_lag_current") || k == "cbgo_total_lag_current" {
					fs = append(fs, Finding{"C16", "lag", "C16/lag-invented", fmt.Sprintf("scrape %d: the node answered the sequence-number query of this scrape with an error, yet the scrape reports %s=%v", mi, k, v)})
					break
				}
			}
			continue
		}
		if !m.OK {
			closedWindow := false
			for _, r := range tr.Log {
				if r.K == "eh.held.ASS" && r.T < m.TCall {
					closedWindow = true
				}
			}
			if closedWindow || m.Err != "" {
				fs = append(fs, Finding{"C16", "scrape", "C16/scrape-failed", fmt.Sprintf("scrape %d failed: %s", mi, m.Err)})
			}
			continue
		}
		// epoch and assignment at the scrape
		var assigned []int
		lastOpen := int64(0)
		closed := false
		for _, r := range tr.Log {
			if r.T >= m.TCall {
				break
			}
			switch r.K {
			case "eh.BSStart":
				lastOpen = r.T
			case "eh.ASStart":
				closed = false
			case "eh.BSS":
				closed = true
			}
		}
		if closed {
			n++
			continue // scraping while closed: must only succeed (checked above)
		}
		// the numbering in effect is the one the current open was computed from: the latest announcement made before the first
		// stream request of that open (an announcement that has not led to a reopen yet is not in effect)
		firstReq := m.TCall
		for _, segs := range tr.Segs {
			for _, sg := range segs {
				if sg.ReqT >= lastOpen && sg.ReqT < firstReq {
					firstReq = sg.ReqT
				}
			}
		}
		member, total := 1, 1
		if sp != nil && sp.Membership == "dynamic" && sp.FirstInfo[1] > 0 {
			// the first open cannot be computed from anything but the first numbering (GetInfo blocks until it is there),
			// whatever the order in which the harness logged it and the node saw the first stream request
			member, total = sp.FirstInfo[0], sp.FirstInfo[1]
		}
		rebalances := 0
		for _, r := range tr.Log {
			if r.T >= m.TCall {
				break
			}
			if (r.K == "ctl.membership" || r.K == "ctl.membership.call") && r.T < firstReq {
				member, total = int(r.A), int(r.B)
			}
			if r.K == "eh.ARE" {
				rebalances++
			}
		}
		pos := map[int]tuple{}
		resume := map[int]bool{}
		for vb, segs := range tr.Segs {
			for _, sg := range segs {
				if sg.ReqT >= lastOpen && sg.ReqT < m.TCall {
					if !resume[vb] {
						assigned = append(assigned, vb)
						resume[vb] = true
						pos[vb] = tuple{sg.ReqUUID, sg.Start, sg.SnapS, sg.SnapE}
					}
				}
			}
		}
		for _, r := range tr.Log {
			if r.K == "cons.track" && r.T >= lastOpen && r.T < m.TCall && resume[r.VB] {
				if r.Seq >= pos[r.VB].seq {
					pos[r.VB] = tuple{r.D, r.Seq, r.B, r.C}
				}
			}
		}
		// quiescent? no ack/track inside the scrape window
		quiet := true
		for _, r := range tr.Log {
			if r.T > m.TCall && r.T < m.TRet && (r.K == "cons.track" || r.K == "cons.ack.call" || r.K == "cons.deliver.call") {
				quiet = false
			}
		}
		// high seqnos the node sent inside the scrape window (collection-aware query)
		highs := map[int]uint64{}
		for _, r := range tr.Log {
			if r.T > m.TCall && r.T < m.TRet && r.K == "sim.tx" && r.Op == cbsim.OpGetAllVBSeqnos {
				b := []byte(r.S)
				for i := 0; i+10 <= len(b); i += 10 {
					vb := int(binary.BigEndian.Uint16(b[i:]))
					h := binary.BigEndian.Uint64(b[i+2:])
					if h > highs[vb] {
						highs[vb] = h
					}
				}
			}
		}
		if !quiet {
			continue
		}
		// a delivery that has not returned at the scrape (consumer blocked): that event may or may not be counted yet, and
		// stream ends queued behind it have not reached the library
		inflight := map[int]int{} // vb -> kind of the event inside the listener
		for _, r := range tr.Log {
			if r.T >= m.TCall {
				break
			}
			switch r.K {
			case "cons.deliver.call":
				inflight[r.VB] = int(r.A)
			case "cons.deliver.ret":
				delete(inflight, r.VB)
			}
		}
		n++
		sumLag := 0.0
		counters := map[string]float64{}
		for _, vb := range assigned {
			p := pos[vb]
			if v, ok := m.Vals[lbl("cbgo_seq_no_current", vb)]; !ok || v != float64(p.seq) {
				fs = append(fs, Finding{"C16", "gauge", "C16/gauge/seqno", fmt.Sprintf("scrape %d vb %d: cbgo_seq_no_current=%v (present %v), tracked position %d", mi, vb, v, ok, p.seq)})
			}
			if v, ok := m.Vals[lbl("cbgo_start_seq_no_current", vb)]; ok && v != float64(p.ss) {
				fs = append(fs, Finding{"C16", "gauge", "C16/gauge/snapshot", fmt.Sprintf("scrape %d vb %d: start_seq_no=%v, tracked snapshot [%d,%d]", mi, vb, v, p.ss, p.se)})
			}
			if v, ok := m.Vals[lbl("cbgo_end_seq_no_current", vb)]; ok && v != float64(p.se) {
				fs = append(fs, Finding{"C16", "gauge", "C16/gauge/snapshot", fmt.Sprintf("scrape %d vb %d: end_seq_no=%v, tracked snapshot [%d,%d]", mi, vb, v, p.ss, p.se)})
			}
			wantLag := 0.0
			if h, ok := highs[vb]; ok && h > p.seq {
				wantLag = float64(h - p.seq)
			}
			gotLag, okl := m.Vals[lbl("cbgo_lag_current", vb)]
			if _, okh := highs[vb]; okh && (!okl || gotLag != wantLag) {
				fs = append(fs, Finding{"C16", "lag", "C16/lag", fmt.Sprintf("scrape %d vb %d: cbgo_lag_current=%v, server high seqno %d, tracked %d => expected %v", mi, vb, gotLag, highs[vb], p.seq, wantLag)})
			}
			sumLag += gotLag
			// kind counters: between the deliveries and deliveries + reserved-key events of that kind (DESIGN §3 rule 3)
			for _, kc := range []struct {
				name string
				kind byte
			}{{"cbgo_mutation_total", cbsim.KMutation}, {"cbgo_deletion_total", cbsim.KDeletion}, {"cbgo_expiration_total", cbsim.KExpiration}} {
				lo, hi := 0, 0
				for _, e := range tr.Events {
					if int(e.VB) == vb && e.T >= lastOpen && e.T < m.TCall && byte(e.Kind) == kc.kind {
						lo++
					}
				}
				hi = lo
				if k, ok := inflight[vb]; ok && byte(k) == kc.kind && lo > 0 {
					lo--
				}
				for _, sg := range tr.Segs[vb] {
					if sg.ReqT < lastOpen {
						continue
					}
					for _, it := range sg.Items {
						if it.T < m.TCall && it.Kind == kc.kind && reservedKey([]byte(it.Key)) && !(sp.SkipUntil != 0 && int64(it.Cas/1000000000) < sp.SkipUntil) {
							hi++
						}
					}
				}
				v, ok := m.Vals[lbl(kc.name, vb)]
				counters[lbl(kc.name, vb)] = v
				if !ok || v < float64(lo) || v > float64(hi) {
					fs = append(fs, Finding{"C16", "counter", "C16/counter", fmt.Sprintf("scrape %d vb %d: %s=%v (present %v), events of that kind accepted in the session: between %d and %d", mi, vb, kc.name, v, ok, lo, hi)})
				}
			}
		}
		if v, ok := m.Vals["cbgo_total_lag_current"]; ok && len(highs) > 0 && v != sumLag {
			fs = append(fs, Finding{"C16", "lag", "C16/total-lag", fmt.Sprintf("scrape %d: cbgo_total_lag_current=%v, sum of the per-vBucket lags of the same scrape=%v", mi, v, sumLag)})
		}
		eq := func(name string, want float64, clause string) {
			if v, ok := m.Vals[name]; !ok || v != want {
				fs = append(fs, Finding{"C16", clause, "C16/" + clause, fmt.Sprintf("scrape %d: %s=%v (present %v), value in effect %v", mi, name, v, ok, want)})
			}
		}
		if len(assigned) > 0 {
			lo, hi := assigned[0], assigned[0]
			for _, v := range assigned {
				if v < lo {
					lo = v
				}
				if v > hi {
					hi = v
				}
			}
			eq("cbgo_member_number_current", float64(member), "membership")
			eq("cbgo_total_members_current", float64(total), "membership")
			eq("cbgo_vbucket_range_start_current", float64(lo), "membership")
			eq("cbgo_vbucket_range_end_current", float64(hi), "membership")
			eq("cbgo_vbucket_count_current", float64(sp.NumVB), "membership")
			eq("cbgo_rebalance_current", float64(rebalances), "rebalance-count")
			// active streams: assigned minus finally ended in this epoch
			ended := 0
			for _, vb := range assigned {
				for _, sg := range tr.Segs[vb] {
					if sg.ReqT >= lastOpen && sg.EndT != 0 && sg.EndT < m.TCall && !isTransient(sg.EndSt) && (sg.CloseT == 0 || sg.CloseT > sg.EndT) {
						ended++
					}
				}
			}
			if len(inflight) == 0 {
				eq("cbgo_active_stream_current", float64(len(assigned)-ended), "active-streams")
			} else if v, ok := m.Vals["cbgo_active_stream_current"]; !ok || v < float64(len(assigned)-ended) || v > float64(len(assigned)) {
				fs = append(fs, Finding{"C16", "active-streams", "C16/active-streams", fmt.Sprintf("scrape %d: cbgo_active_stream_current=%v (present %v) with the consumer inside a delivery; assigned %d, ends sent by the node %d", mi, v, ok, len(assigned), ended)})
			}
		}
		// counters never decrease within an epoch
		if prevCounters != nil {
			for k, v := range counters {
				if pv, ok := prevCounters[k]; ok && v < pv {
					fs = append(fs, Finding{"C16", "counter", "C16/counter-decreased", fmt.Sprintf("scrape %d: %s went from %v to %v within one session", mi, k, pv, v)})
				}
			}
		}
		if rebalances == 0 || true {
			prevCounters = counters
		}
		if mi+1 < len(tr.Metrics) {
			// a rebalance between scrapes resets the observers legitimately
			for _, r := range tr.Log {
				if r.K == "eh.BSS" && r.T > m.TRet && r.T < tr.Metrics[mi+1].TCall {
					prevCounters = nil
				}
			}
		}
	}
	return fs, n
}

func init() {
	drv.Register(&drv.Prop{
		ID: "C16", Level: "exploration", Parallel: 12, Batch: 1, MinConclusive: 40,
		Rule: "sessions with deliveries, acknowledgements, saves, transient re-opens and dynamic-membership rebalances; GET /metrics is scraped at quiescent points, with server high seqnos scripted below / equal / above the tracked position, " +
			"and while the stream is closed (library held inside AfterStreamStop). Oracle per scrape: per-vBucket gauges == tracked position and snapshot; lag == max(0, high sent in the scrape window - tracked); total == sum of the scrape's lags; " +
			"kind counters within [delivered, delivered+reserved-key events]; member/size/range/count/active/rebalance == values in effect; counters never decrease inside a session; a scrape while closed returns; renumbered: another member number in a group of unchanged size; scrape-across-close: a background scrape overlapping the close of a rebalance returns and does not crash the process. " +
			"Non-trivial: a scrape with a vBucket whose high seqno is below the tracked one, or taken while closed, or after a re-open/rebalance; distinct = distinct abstract traces",
		Assumptions: []string{"equalities only at quiescent scrapes (no ack/track/delivery inside the scrape window)", "cbsim answers the collection-aware GET_ALL_VB_SEQNOS used by the collector"},
		Gen: func(seed int64, tier string) []drv.Scenario {
			rng := rand.New(rand.NewSource(seed))
			n := 180
			if tier == "thorough" {
				n = 2400
			}
			var out []drv.Scenario
			for i := 0; i < n; i++ {
				sp, kind := c16Spec(rng, i)
				out = append(out, drv.Scenario{Kind: kind, Seed: seed, Params: mustJSON(sp), TimeoutS: 120})
			}
			// own random source: the cases above keep their parameters
			xr := rand.New(rand.NewSource(seed*97 + 13))
			for j := 0; j < n/15; j++ {
				sp := &SessSpec{NumVB: 3 + xr.Intn(4), Nodes: 1, AckSeed: xr.Int63(), Backlog: map[int][][]ItemSpec{}, Backend: "mem", API: true, Membership: "dynamic", PNow: 0.6, PDefer: 0.4}
				o := &HistOpts{NumVB: sp.NumVB, PSystem: 0.05, PSeqAdv: 0.1, MaxItems: 4}
				ctr := 0
				for vb := 0; vb < sp.NumVB; vb++ {
					sp.Backlog[vb] = append(sp.Backlog[vb], genSnap(xr, o, &ctr))
				}
				kind := "renumbered"
				if j%2 == 0 {
					// the member keeps the group size but gets another number (a peer left, another joined): the gauges follow
					sp.FirstInfo = [2]int{1 + xr.Intn(3), 3}
					sp.Steps = []Step{{Op: "barrier"}, {Op: "ack", Sel: "random", N: 2}, {Op: "metrics"}}
					m := sp.FirstInfo[0]
					for r := 0; r < 1+xr.Intn(2); r++ {
						m = m%3 + 1
						sp.Steps = append(sp.Steps, Step{Op: "membership", N: m, VB: 3}, Step{Op: "waitrebalance", N: r + 1}, Step{Op: "barrier"}, Step{Op: "metrics"})
					}
				} else {
					// a scrape whose sequence-number query is still under way when a rebalance closes the stream
					kind = "scrape-across-close"
					sp.FirstInfo = [2]int{1, 1}
					sp.Steps = []Step{{Op: "barrier"}, {Op: "ack", Sel: "random", N: 2}, {Op: "metrics"}, {Op: "seqnohold", Ms: 100 + xr.Intn(100)}, {Op: "metricsbg"}, {Op: "sleep", Ms: 20 + xr.Intn(30)},
						{Op: "membership", N: 1, VB: 2}, {Op: "waitrebalance", N: 1}, {Op: "seqnohold", Ms: 0}, {Op: "waitbg"}, {Op: "barrier"}, {Op: "metrics"}}
				}
				out = append(out, drv.Scenario{Kind: kind, Seed: seed, Params: mustJSON(sp), TimeoutS: 120})
			}
			return out
		},
		Run: func(sc drv.Scenario) drv.Result {
			var sp SessSpec
			if err := json.Unmarshal(sc.Params, &sp); err != nil {
				return drv.Result{Verdict: drv.Inconclusive, Detail: err.Error()}
			}
			tr := RunSession(&sp)
			fs, n := OracleMetrics(tr)
			ok := 0
			var last map[string]float64
			for _, m := range tr.Metrics {
				if m.OK {
					ok++
					last = m.Vals
				}
			}
			ex := map[string]float64{}
			for k, v := range last {
				if len(k) > 5 && k[:5] == "cbgo_" && len(ex) < 14 {
					ex[k] = v
				}
			}
			sample := map[string]any{"kind": sc.Kind, "vbuckets": sp.NumVB, "scrapes": ok, "scrapes_evaluated": n, "last_scrape_excerpt": ex}
			r := sessionResult("C16", tr, fs, sc.Kind != "scrape" && n > 0, sample)
			r.Events["scrapes"] = ok
			r.Checks = n
			return r
		},
		OnDeath: func(sc drv.Scenario, out drv.ChildOutcome) drv.Result {
			if drv.IsLibraryPanic(out.Stderr) && sc.Kind == "closed" {
				return drv.Result{Verdict: drv.Violated, Clause: "scrape", FindingKey: "C16/scrape-crash", Detail: "process died around a scrape while the stream was closed: " + drv.PanicLine(out.Stderr)}
			}
			if drv.IsLibraryPanic(out.Stderr) && sc.Kind == "scrape-across-close" && strings.Contains(out.Stderr, "metric.(*metricCollector).Collect") {
				return drv.Result{Verdict: drv.Violated, Clause: "scrape", FindingKey: "C16/scrape-crash", Detail: "process died inside a scrape that overlapped a close of the stream: " + drv.PanicLine(out.Stderr)}
			}
			return drv.Result{Verdict: drv.Inconclusive, Detail: "child died: " + drv.PanicLine(out.Stderr), Foreign: []string{"process death: " + drv.PanicLine(out.Stderr)}}
		},
	})
}
