package props

import (
	"encoding/json"
	"fmt"
	"math/rand"
	"strings"
	"time"

	"github.com/Trendyol/go-dcp/couchbase"
	"github.com/Trendyol/go-dcp/models"

	"verif/harness/cbsim"
	"verif/harness/drv"
	"verif/harness/evlog"
	"verif/harness/hx"
)

// C14 — the library never feeds on its own writes.

type c14Params struct {
	Groups []string  `json:"groups,omitempty"`
	VBs    []int     `json:"vbs,omitempty"`
	Spec   *SessSpec `json:"spec,omitempty"`
	Loop   *c14Loop  `json:"loop,omitempty"`
}

type c14Loop struct {
	NumVB        int   `json:"num_vb"`
	IntervalMs   int   `json:"interval_ms"`
	UserEvents   int   `json:"user_events"`
	Seed         int64 `json:"seed"`
	Membership   bool  `json:"membership"`
	ReplyDelayUs int   `json:"reply_delay_us"` // the fed-back event reaches the client before the write's reply
}

const c14Prefix = "_connector:cbgo:"

func c14GenGroup(rng *rand.Rand) string {
	base := []string{"orders", "g", "a:b", "x:checkpoint:1", "checkpoint", ":checkpoint:", "grp-1", "grp-11", "grp-110", "orders-1", "orders-11", "ünï-cödé", "", strings.Repeat("L", 200), "a b", "instance", "g:instance", "1", "10", "0"}
	s := base[rng.Intn(len(base))]
	if rng.Intn(3) == 0 {
		s += fmt.Sprint(rng.Intn(120))
	}
	if rng.Intn(6) == 0 {
		s += ":" + fmt.Sprint(rng.Intn(12))
	}
	return s
}

func init() {
	drv.Register(&drv.Prop{
		ID: "C14", Level: "exploration", Parallel: 10, Batch: 4, MinConclusive: 30,
		Rule: "names: generated group names (colons, ':checkpoint:' inside, digit suffixes such as orders-1 / orders-11, unicode, empty, 200 chars) x vBucket ids are saved through the real couchbase metadata back end in ONE process; " +
			"every key the simulated node receives must carry the reserved prefix and distinct (group, vBucket) pairs must produce distinct keys; dotted names must end the process. " +
			"reserved: sessions whose histories contain mutations, deletions and expirations under the reserved prefixes (and near misses): never delivered, position advances (TrackOffset), and a Commit() after absorbed-only traffic writes nothing. " +
			"loop: metadata bucket = source bucket, every checkpoint / membership write is appended to the streamed history and comes back; periodic checkpointing; after the last user event the number of checkpoint writes must become constant. " +
			"Non-trivial: a loop in which >=1 own write was streamed back, or a name pair differing only in how digits split between group and vBucket; distinct = distinct (group,vb) pairs / abstract traces",
		Assumptions: []string{"closed-loop convergence is judged after 40 further checkpoint intervals (violation only if writes continue over the whole window of 200 intervals)"},
		Gen: func(seed int64, tier string) []drv.Scenario {
			rng := rand.New(rand.NewSource(seed))
			var out []drv.Scenario
			nb, per := 6, 60
			nsess, nloop := 120, 16
			if tier == "thorough" {
				nb, per, nsess, nloop = 40, 250, 1500, 200
			}
			for b := 0; b < nb; b++ {
				p := c14Params{}
				for i := 0; i < per; i++ {
					p.Groups = append(p.Groups, c14GenGroup(rng))
					p.VBs = append(p.VBs, []int{0, 1, 10, 11, 110, 101, 1023, rng.Intn(1024)}[rng.Intn(8)])
				}
				// adversarial pairs: digits that can be split differently between name and vBucket id
				p.Groups = append(p.Groups, "orders-1", "orders-11", "orders-", "orders-110", "q1", "q", "q11")
				p.VBs = append(p.VBs, 10, 0, 110, 0, 11, 111, 1)
				out = append(out, drv.Scenario{Kind: "names", Seed: seed, Params: mustJSON(p), TimeoutS: 120})
			}
			for _, g := range []string{"a.b", ".", "trailing.", "x.y.z"} {
				out = append(out, drv.Scenario{Kind: "dotted", Seed: seed, Params: mustJSON(c14Params{Groups: []string{g}, VBs: []int{3}}), TimeoutS: 60, Solo: true})
			}
			// the same through a complete client (the configuration passes through ApplyDefaults): a dotted group name must
			// not produce a running session
			for _, g := range []string{"orders.v2", "a.b.c", "x."} {
				sp := &SessSpec{NumVB: 2, Nodes: 1, PNow: 1, Backend: "cb", GroupName: g, Backlog: map[int][][]ItemSpec{0: {{{K: "m", Key: []byte("k"), Val: []byte("{}")}}}}, Steps: []Step{{Op: "barrier"}, {Op: "commit"}}}
				out = append(out, drv.Scenario{Kind: "dotted-full", Seed: seed, Params: mustJSON(c14Params{Spec: sp}), TimeoutS: 60, Solo: true})
			}
			for i := 0; i < nsess; i++ {
				sp := c14ReservedSpec(rng, i)
				out = append(out, drv.Scenario{Kind: "reserved", Seed: seed, Params: mustJSON(c14Params{Spec: sp}), TimeoutS: 90, Solo: sp.API})
			}
			// finite runs: a vBucket whose whole traffic consists of reserved-key events ends normally; the closing save of the
			// run must not write a checkpoint for it (its position was never flagged)
			nfin := nsess / 10
			frng := rand.New(rand.NewSource(seed*31 + 5))
			for i := 0; i < nfin; i++ {
				sp := &SessSpec{NumVB: 2 + frng.Intn(4), Nodes: 1, AckSeed: frng.Int63(), Backend: []string{"mem", "cb"}[i%2], Backlog: map[int][][]ItemSpec{}, Mode: "finite", PNow: 1, Auto: true, IntervalMs: 60000}
				o := &HistOpts{NumVB: sp.NumVB, PReserved: 0.3, MaxItems: 4}
				ctr := 0
				quietVB := frng.Intn(sp.NumVB)
				for vb := 0; vb < sp.NumVB; vb++ {
					if vb == quietVB || frng.Intn(3) == 0 {
						var sn []ItemSpec
						for j := 0; j < 1+frng.Intn(3); j++ {
							sn = append(sn, ItemSpec{K: []string{"m", "d", "e"}[frng.Intn(3)], Key: []byte(reservedSamples[frng.Intn(len(reservedSamples))] + fmt.Sprint(frng.Intn(9))), Val: []byte("{}")})
						}
						sp.Backlog[vb] = append(sp.Backlog[vb], sn)
						continue
					}
					sp.Backlog[vb] = append(sp.Backlog[vb], genSnap(frng, o, &ctr))
				}
				sp.Steps = []Step{{Op: "selfstopcheck", Ms: 8000}}
				out = append(out, drv.Scenario{Kind: "reserved-finite", Seed: seed, Params: mustJSON(c14Params{Spec: sp}), TimeoutS: 90})
			}
			for i := 0; i < nloop; i++ {
				lp := &c14Loop{NumVB: 2 + rng.Intn(6), IntervalMs: 4 + rng.Intn(8), UserEvents: rng.Intn(30), Seed: rng.Int63(), Membership: i%4 == 3}
				if i%5 == 4 {
					lp.UserEvents = 0
				}
				if i%2 == 0 {
					lp.ReplyDelayUs = 500 + rng.Intn(2500)
				}
				out = append(out, drv.Scenario{Kind: "loop", Seed: seed, Params: mustJSON(c14Params{Loop: lp}), TimeoutS: 120, Solo: lp.Membership})
			}
			return out
		},
		Run: runC14,
		OnDeath: func(sc drv.Scenario, out drv.ChildOutcome) drv.Result {
			if (sc.Kind == "dotted" || sc.Kind == "dotted-full") && drv.IsLibraryPanic(out.Stderr) {
				return drv.Result{Verdict: drv.Held, Nontrivial: true, TraceHash: drv.Hash("dotted", string(sc.Params)), Checks: 1, Events: map[string]int{"process_deaths": 1},
					Sample: map[string]any{"kind": "dotted", "outcome": drv.PanicLine(out.Stderr)}}
			}
			return drv.Result{Verdict: drv.Inconclusive, Detail: "child died: " + drv.PanicLine(out.Stderr), Foreign: []string{"process death: " + drv.PanicLine(out.Stderr)}}
		},
	})
}

func c14ReservedSpec(rng *rand.Rand, i int) *SessSpec {
	// the reserved keys are reserved in every set-up, also when this client keeps its own checkpoints elsewhere (file)
	sp := &SessSpec{NumVB: 1 + rng.Intn(5), Nodes: 1, AckSeed: rng.Int63(), Backend: []string{"mem", "cb", "file"}[rng.Intn(3)], Backlog: map[int][][]ItemSpec{}}
	sp.PNow, sp.PDefer = 0.6, 0.3
	o := &HistOpts{NumVB: sp.NumVB, PReserved: 0.45, PSystem: 0.03, PSeqAdv: 0.05, MaxItems: 5}
	if i%4 == 2 {
		// a skip window on top: reserved-key events with a CAS time before it stay unflagged like all others
		sp.SkipUntil = time.Now().Unix() + 3600
		o.SkipUntil = sp.SkipUntil
		if rng.Intn(2) == 0 {
			sp.SkipUntil = time.Now().Unix() - int64(rng.Intn(3))
			o.SkipUntil = sp.SkipUntil
			o.CasAround = true
		}
	}
	cid := uint32(0)
	if i%5 == 3 {
		// named collections are streamed: the reserved prefixes are reserved there as well (transaction records live in
		// whatever collection the application chose for them)
		sp.Colls = map[string]uint32{"c1": 8, "c2": 9}
		sp.CollNames = []string{"c1", "c2"}
		o.Cids = []uint32{8, 9}
		cid = 8
	}
	ctr := 0
	for vb := 0; vb < sp.NumVB; vb++ {
		sp.Backlog[vb] = append(sp.Backlog[vb], genSnap(rng, o, &ctr))
	}
	for k := 0; k < 2+rng.Intn(6); k++ {
		sp.Steps = append(sp.Steps, Step{Op: "append", VB: rng.Intn(sp.NumVB), Items: genSnap(rng, o, &ctr)})
	}
	sp.Steps = append(sp.Steps, Step{Op: "barrier"}, Step{Op: "ack", Sel: "all"}, Step{Op: "check"})
	// absorbed-only traffic afterwards: reserved-key events of all three kinds; then a Commit must write nothing
	for k := 0; k < 1+rng.Intn(3); k++ {
		var sn []ItemSpec
		for j := 0; j < 1+rng.Intn(3); j++ {
			sn = append(sn, ItemSpec{K: []string{"m", "d", "e"}[rng.Intn(3)], Key: []byte(reservedSamples[rng.Intn(len(reservedSamples))] + fmt.Sprint(rng.Intn(9))), Val: []byte("{}"), Cid: cid})
		}
		sp.Steps = append(sp.Steps, Step{Op: "append", VB: rng.Intn(sp.NumVB), Items: sn})
	}
	sp.Steps = append(sp.Steps, Step{Op: "barrier"}, Step{Op: "absorbedcommit"})
	if i%3 == 1 {
		// ... and neither does a rebalance that follows (positions reached through reserved keys alone are not handed over by a write)
		sp.Membership = "dynamic"
		sp.FirstInfo = [2]int{1, 1}
		sp.API = true
		sp.Steps = append(sp.Steps, Step{Op: "rebalancenowrite"})
	}
	return sp
}

func runC14(sc drv.Scenario) drv.Result {
	var p c14Params
	if err := json.Unmarshal(sc.Params, &p); err != nil {
		return drv.Result{Verdict: drv.Inconclusive, Detail: err.Error()}
	}
	switch sc.Kind {
	case "names", "dotted":
		return c14Names(sc, &p)
	case "dotted-full":
		drv.NoteFlush("starting a client with dotted group %q", p.Spec.GroupName)
		tr := RunSession(p.Spec)
		if tr.StartErr != "" && len(tr.Segs) == 0 {
			return drv.Result{Verdict: drv.Held, Nontrivial: true, Checks: 1, TraceHash: drv.Hash("dotted-full", p.Spec.GroupName), Events: map[string]int{}, Sample: map[string]any{"kind": "dotted-full", "outcome": "start refused: " + tr.StartErr}}
		}
		var wrote []string
		for _, r := range tr.Log {
			if r.K == "sim.docwrite" && strings.Contains(r.S, ":checkpoint:") {
				wrote = append(wrote, r.S)
			}
		}
		return drv.Result{Verdict: drv.Violated, Clause: "dotted", FindingKey: "C14/dotted-accepted", Nontrivial: true, TraceHash: drv.Hash("dotted-full", p.Spec.GroupName),
			Detail: fmt.Sprintf("a client configured with group name %q (contains a dot) started and streamed; checkpoint keys written: %v", p.Spec.GroupName, wrote)}
	case "reserved-finite":
		tr := RunSession(p.Spec)
		if len(tr.Checks) == 0 {
			return drv.Result{Verdict: drv.Inconclusive, Detail: "the finite run did not stop on its own within 8 s: " + tr.StartErr}
		}
		var fs []Finding
		for _, f := range OracleDelivery(tr) {
			if f.Prop == "C03" && f.Key == "C03/list/unfiltered" {
				fs = append(fs, Finding{"C14", "list", "C14/reserved-delivered", f.Detail})
			}
		}
		st := tr.Checks[len(tr.Checks)-1].Store
		quiet := 0
		for vb, snaps := range p.Spec.Backlog {
			only := true
			for _, sn := range snaps {
				for _, it := range sn {
					if !reservedKey(it.Key) {
						only = false
					}
				}
			}
			if !only {
				continue
			}
			quiet++
			if c, ok := st[vb]; ok && c[1] != 0 {
				fs = append(fs, Finding{"C14", "flag", "C14/reserved-flagged-at-finite-end", fmt.Sprintf("vb %d received reserved-key events only and ended normally; the closing save of the finite run wrote the checkpoint (uuid %x, seqno %d, [%d,%d]) for it", vb, c[0], c[1], c[2], c[3])})
			}
		}
		return sessionResult("C14", tr, fs, quiet > 0, map[string]any{"kind": "reserved-finite", "backend": p.Spec.Backend, "vbuckets": p.Spec.NumVB, "reserved_only_vbuckets": quiet, "stored": len(st)})
	case "reserved":
		tr := RunSession(p.Spec)
		var fs []Finding
		for _, f := range OracleDelivery(tr) {
			if f.Prop == "C03" && f.Key == "C03/list/unfiltered" {
				f.Prop, f.Key = "C14", "C14/reserved-delivered"
			}
			fs = append(fs, f)
		}
		// every absorbed reserved-key event must advance the position
		tracked := map[[2]uint64]bool{}
		for _, r := range tr.Log {
			if r.K == "cons.track" {
				tracked[[2]uint64{uint64(r.VB), r.Seq}] = true
			}
		}
		nres := 0
		for vb, segs := range tr.Segs {
			for _, sg := range segs {
				for _, it := range sg.Items {
					if tr.Spec.SkipUntil != 0 && int64(it.Cas/1000000000) < tr.Spec.SkipUntil {
						continue // dropped by the skip window before the reserved-key check: no position, no flag
					}
					if isDoc(it.Kind) && reservedKey([]byte(it.Key)) {
						nres++
						if !tracked[[2]uint64{uint64(vb), it.Seq}] && tr.BarrierTimeouts == 0 {
							fs = append(fs, Finding{"C14", "advance", "C14/reserved-not-advancing", fmt.Sprintf("vb %d: reserved-key event %q (seq %d, kind %c) did not advance the position", vb, it.Key, it.Seq, it.Kind)})
						}
					}
				}
			}
		}
		for _, r := range tr.Log {
			if r.K == "ctl.rebalancewrites" && r.A > 0 {
				fs = append(fs, Finding{"C14", "flag", "C14/reserved-flagged-by-rebalance", fmt.Sprintf("after a completed save and traffic consisting only of reserved-key events, a rebalance performed %d checkpoint write(s)", r.A)})
			}
			if r.K == "ctl.absorbedcommit" && r.A > 0 {
				fs = append(fs, Finding{"C14", "flag", "C14/reserved-flagged-for-saving", fmt.Sprintf("after traffic consisting only of reserved-key events, Commit() performed %d checkpoint write(s)", r.A)})
			}
		}
		sample := map[string]any{"kind": "reserved", "reserved_events_sent": nres, "delivered": len(tr.Events), "tracker_notifications": len(tr.Tracks), "example_stream": exampleStream(tr)}
		r := sessionResult("C14", tr, fs, nres > 0, sample)
		r.Checks = nres
		return r
	case "loop":
		return c14RunLoop(sc, p.Loop)
	}
	return drv.Result{Verdict: drv.Inconclusive}
}

func c14Names(sc drv.Scenario, p *c14Params) drv.Result {
	env, err := hx.NewEnv(hx.EnvOpts{NumVB: 4})
	if err != nil {
		return drv.Result{Verdict: drv.Inconclusive, Detail: err.Error()}
	}
	defer env.Close()
	cfg := env.BaseConfig()
	cfg.ApplyDefaults()
	cl := couchbase.NewClient(cfg)
	if err := cl.Connect(); err != nil {
		return drv.Result{Verdict: drv.Inconclusive, Detail: err.Error()}
	}
	defer cl.Close()
	keyOf := map[string]string{} // "group\x00vb" -> key
	pairOf := map[string]string{}
	res := drv.Result{Verdict: drv.Held, Events: map[string]int{}}
	var ex []string
	for i, g := range p.Groups {
		vb := uint16(p.VBs[i])
		c2 := *cfg
		c2.Dcp.Group.Name = g
		md := couchbase.NewCBMetadata(cl, &c2)
		before := env.Log.Len()
		if sc.Kind == "dotted" {
			drv.NoteFlush("saving with dotted group %q", g)
		}
		err := md.Save(map[uint16]*models.CheckpointDocument{vb: models.NewEmptyCheckpointDocument("u")}, map[uint16]bool{vb: true}, "u")
		if err != nil {
			return drv.Result{Verdict: drv.Inconclusive, Detail: fmt.Sprintf("save for group %q failed: %v", g, err)}
		}
		if sc.Kind == "dotted" {
			return drv.Result{Verdict: drv.Violated, Clause: "dotted", FindingKey: "C14/dotted-accepted", Nontrivial: true, TraceHash: drv.Hash("dotted", g),
				Detail: fmt.Sprintf("group name %q (contains a dot) was accepted and a checkpoint written", g)}
		}
		var keys []string
		for _, r := range env.Log.Snapshot()[before:] {
			if r.K == "sim.docwrite" {
				keys = append(keys, r.S)
			}
		}
		if len(keys) == 0 {
			return drv.Result{Verdict: drv.Inconclusive, Detail: "no write observed"}
		}
		res.Checks++
		for _, k := range keys {
			if !strings.HasPrefix(k, c14Prefix) {
				return drv.Result{Verdict: drv.Violated, Clause: "prefix", FindingKey: "C14/foreign-key", Detail: fmt.Sprintf("group %q vb %d: library wrote key %q outside the reserved prefix", g, vb, k)}
			}
			pair := fmt.Sprintf("%s\x00%d", g, vb)
			if prev, ok := pairOf[k]; ok && prev != pair {
				return drv.Result{Verdict: drv.Violated, Clause: "injective", FindingKey: "C14/key-collision",
					Detail: fmt.Sprintf("(group %q, vb %d) and (group %q) map to the same key %q", g, vb, strings.ReplaceAll(prev, "\x00", "\", vb "), k)}
			}
			pairOf[k] = pair
			if prevKey, ok := keyOf[pair]; ok && prevKey != k {
				return drv.Result{Verdict: drv.Violated, Clause: "injective", FindingKey: "C14/key-unstable", Detail: fmt.Sprintf("(group %q, vb %d) mapped to %q and later to %q", g, vb, prevKey, k)}
			}
			keyOf[pair] = k
		}
		if len(ex) < 3 {
			ex = append(ex, fmt.Sprintf("(%q,%d) -> %q", trunc(g, 30), vb, trunc(keys[len(keys)-1], 70)))
		}
		// several vBuckets in ONE save: every one of them is written under its own key
		if sc.Kind == "names" && i%7 == 0 {
			vbs := []uint16{vb, (vb + 1) % 1024, (vb + 513) % 1024}
			st := map[uint16]*models.CheckpointDocument{}
			dirty := map[uint16]bool{}
			for _, v := range vbs {
				st[v] = models.NewEmptyCheckpointDocument("u")
				dirty[v] = true
			}
			before := env.Log.Len()
			if err := md.Save(st, dirty, "u"); err != nil {
				return drv.Result{Verdict: drv.Inconclusive, Detail: fmt.Sprintf("multi save for group %q failed: %v", g, err)}
			}
			got := map[string]bool{}
			for _, r := range env.Log.Snapshot()[before:] {
				if r.K == "sim.docwrite" {
					got[r.S] = true
				}
			}
			res.Checks++
			for _, v := range vbs {
				want := fmt.Sprintf("%s%s:checkpoint:%d", c14Prefix, g, v)
				if k, ok := keyOf[fmt.Sprintf("%s\x00%d", g, v)]; ok {
					want = k
				}
				if !got[want] {
					var ks []string
					for k := range got {
						ks = append(ks, k)
					}
					return drv.Result{Verdict: drv.Violated, Clause: "injective", FindingKey: "C14/multi-save-keys", Detail: fmt.Sprintf("group %q: one save of vBuckets %v wrote keys %v; the key of vb %d (%q) is missing", g, vbs, ks, v, want)}
				}
			}
		}
	}
	res.SubEvals = res.Checks
	res.SubDistinct = len(keyOf)
	res.Nontrivial = true
	res.TraceHash = drv.Hash("names", fmt.Sprint(len(p.Groups)), p.Groups[0], fmt.Sprint(p.VBs[:3]))
	res.Events["key_writes"] = len(pairOf)
	res.Sample = map[string]any{"kind": "names", "pairs": len(keyOf), "examples": ex}
	return res
}

// c14RunLoop: metadata bucket = source bucket; every write of the library is fed back as a mutation.
func c14RunLoop(sc drv.Scenario, lp *c14Loop) drv.Result {
	env, err := hx.NewEnv(hx.EnvOpts{NumVB: lp.NumVB, Seed: lp.Seed})
	if err != nil {
		return drv.Result{Verdict: drv.Inconclusive, Detail: err.Error()}
	}
	defer env.Close()
	env.Sim.Loopback = true
	if lp.ReplyDelayUs > 0 {
		env.Sim.LoopbackReplyDelay = time.Duration(lp.ReplyDelayUs) * time.Microsecond
	}
	rng := rand.New(rand.NewSource(lp.Seed))
	cfg := env.BaseConfig()
	cfg.Checkpoint.Type = "auto"
	cfg.Checkpoint.Interval = time.Duration(lp.IntervalMs) * time.Millisecond
	if lp.Membership {
		cfg.Dcp.Group.Membership.Type = "couchbase"
		cfg.Dcp.Group.Membership.RebalanceDelay = 20 * time.Millisecond
		cfg.Dcp.Group.Membership.Config = map[string]string{"heartbeatInterval": "15ms", "monitorInterval": "15ms", "heartbeatToleranceDuration": "2s", "timeout": "2s", "expirySeconds": "5"}
	}
	cons := &hx.Consumer{Log: env.Log}
	cons.OnEvent = func(d *hx.Delivered) { d.Ack() }
	full, err := env.StartFull(cfg, hx.FullOpts{Consumer: cons})
	if err != nil {
		return drv.Result{Verdict: drv.Inconclusive, Detail: err.Error()}
	}
	for i := 0; i < lp.UserEvents; i++ {
		env.Sim.Append(uint16(rng.Intn(lp.NumVB)), []cbsim.Item{{Kind: cbsim.KMutation, Key: []byte(fmt.Sprintf("user-%d", i)), Value: []byte("{}")}})
		if rng.Intn(3) == 0 {
			time.Sleep(time.Duration(rng.Intn(3*lp.IntervalMs)) * time.Millisecond)
		}
	}
	hx.WaitFor(5*time.Second, func() bool { return cons.Count() >= lp.UserEvents })
	ckWrites := func() int {
		n := 0
		for _, r := range env.Log.Filter(func(r evlog.Rec) bool { return r.K == "sim.docwrite" && strings.Contains(r.S, ":checkpoint:") }) {
			_ = r
			n++
		}
		return n
	}
	iv := time.Duration(lp.IntervalMs) * time.Millisecond
	// convergence: 40 consecutive intervals without a checkpoint write, within at most 200 intervals
	last := ckWrites()
	lastChange := time.Now()
	start := time.Now()
	converged := false
	for time.Since(start) < 200*iv+2*time.Second {
		time.Sleep(iv)
		n := ckWrites()
		if n != last {
			last, lastChange = n, time.Now()
		} else if time.Since(lastChange) >= 40*iv {
			converged = true
			break
		}
	}
	// all keys written carry the prefix; fed-back events are not delivered
	var fs []Finding
	fedBack := 0
	for _, r := range env.Log.Snapshot() {
		if r.K == "sim.docwrite" {
			if !strings.HasPrefix(r.S, c14Prefix) {
				fs = append(fs, Finding{"C14", "prefix", "C14/foreign-key", fmt.Sprintf("library wrote key %q outside the reserved prefix", r.S)})
			}
		}
		if r.K == "sim.tx.item" && strings.HasPrefix(r.S, c14Prefix) {
			fedBack++
		}
	}
	for _, e := range cons.Events() {
		if reservedKey(e.Key) {
			fs = append(fs, Finding{"C14", "reserved-delivered", "C14/reserved-delivered", fmt.Sprintf("own write %q (vb %d seq %d) was delivered to the consumer", e.Key, e.VB, e.Seq)})
			break
		}
	}
	if !converged {
		fs = append(fs, Finding{"C14", "loop", "C14/closed-loop-not-converging", fmt.Sprintf("checkpoint writes into the streamed bucket keep triggering checkpoint writes: %d writes, still growing %d intervals after the last user event (%d own writes streamed back)", last, 200, fedBack)})
	}
	closed := full.Close(20 * time.Second)
	res := drv.Result{Verdict: drv.Held, Checks: 1, Nontrivial: fedBack > 0, Events: map[string]int{"checkpoint_writes": last, "own_writes_streamed_back": fedBack, "user_events": lp.UserEvents, "deliveries": cons.Count()},
		TraceHash: drv.Hash("loop", fmt.Sprint(lp.NumVB, lp.IntervalMs, lp.UserEvents, lp.Membership, last, fedBack)),
		Sample:    map[string]any{"kind": "loop", "vbuckets": lp.NumVB, "interval_ms": lp.IntervalMs, "user_events": lp.UserEvents, "couchbase_membership": lp.Membership, "checkpoint_writes_total": last, "own_writes_streamed_back": fedBack, "converged": converged}}
	if !closed {
		res.Foreign = append(res.Foreign, "C13: close did not complete")
	}
	if len(fs) > 0 {
		res.Verdict, res.Clause, res.FindingKey, res.Detail = drv.Violated, fs[0].Clause, fs[0].Key, fs[0].Detail
	}
	return res
}
