package props

import (
	"encoding/json"
	"fmt"
	"math/rand"
	"sort"
	"strings"
	"time"

	"github.com/Trendyol/go-dcp/helpers"

	"verif/harness/drv"
	"verif/harness/evlog"
)

// C11 — rebalance converges to the latest assignment, once, without stopping the client.

func c11Spec(rng *rand.Rand, i int) (*SessSpec, string) {
	placements := []string{"under-flood", "during-BRS-put", "rm-waiting", "single", "during-close-put", "during-close-get", "during-delay", "while-reopening", "right-after", "repeat", "oscillation", "api-burst", "three-sources", "late-waiter", "slow-notifier", "during-ARE"}
	pl := placements[i%len(placements)]
	sp := &SessSpec{NumVB: 4 + rng.Intn(5), Nodes: 1, AckSeed: rng.Int63(), Backend: []string{"mem", "cb", "file"}[rng.Intn(3)], Backlog: map[int][][]ItemSpec{}, Auto: rng.Intn(2) == 0, IntervalMs: 4}
	sp.Membership = []string{"dynamic", "kubernetesHa", "kubernetesHa"}[rng.Intn(3)]
	sp.RebalanceDelayMs = 80 + rng.Intn(120)
	sp.FirstInfo = [2]int{1, 1}
	sp.PNow, sp.PDefer = 0.7, 0.2
	o := &HistOpts{NumVB: sp.NumVB, PReserved: 0.05, PSystem: 0.04, PSeqAdv: 0.1, MaxItems: 4}
	ctr := 0
	for vb := 0; vb < sp.NumVB; vb++ {
		sp.Backlog[vb] = append(sp.Backlog[vb], genSnap(rng, o, &ctr))
	}
	app := func() Step { return Step{Op: "append", VB: rng.Intn(sp.NumVB), Items: genSnap(rng, o, &ctr)} }
	cur := [2]int{1, 1}
	next := func() [2]int {
		for {
			t := 1 + rng.Intn(3)
			m := 1 + rng.Intn(t)
			if [2]int{m, t} != cur {
				cur = [2]int{m, t}
				return cur
			}
		}
	}
	put := func(async bool) Step {
		v := next()
		st := Step{Op: "notify", Sel: "put", N: v[0], VB: v[1]}
		if async {
			st.Ms = 1
		}
		return st
	}
	get := func(async bool) Step {
		st := Step{Op: "notify", Sel: "get"}
		if async {
			st.Ms = 1
		}
		return st
	}
	d := sp.RebalanceDelayMs
	settle := Step{Op: "quiet", Ms: 2*d + 150}
	sp.Steps = append(sp.Steps, Step{Op: "barrier"}, app(), Step{Op: "ack", Sel: "random", N: 2})
	if i%2 == 1 {
		// warm-up: the scenario is NOT the first-ever rebalance of the process
		sp.Steps = append(sp.Steps, put(false), Step{Op: "waitcycles", N: 1, Ms: 5000}, settle, app())
	}
	switch pl {
	case "under-flood":
		// the DCP connection is busy with a flood of events while the stream is closed and reopened several times
		sp.Membership = "dynamic"
		sp.PNow, sp.PDefer = 1, 0
		flood := func() Step {
			var its []ItemSpec
			for k := 0; k < 3000; k++ {
				its = append(its, ItemSpec{K: "m", Key: []byte("f"), Val: []byte("{}")})
			}
			return Step{Op: "append", VB: rng.Intn(sp.NumVB), Items: its}
		}
		for r := 0; r < 4; r++ {
			sp.Steps = append(sp.Steps, flood(), flood(), flood(), put(false), Step{Op: "waitcycles", N: (i % 2) + 1 + r, Ms: 8000})
		}
	case "during-BRS-put":
		// a second bus notification while the first is still inside BeforeRebalanceStart: the bus must hand
		// notifications to the stream one at a time
		sp.Membership = "kubernetesHa"
		sp.Steps = append(sp.Steps, Step{Op: "holdeh", Sel: "BRS"}, put(true), Step{Op: "waitheld", Sel: "BRS"}, put(true), Step{Op: "sleep", Ms: 25}, Step{Op: "releaseeh"})
	case "rm-waiting":
		// an event is waiting in rollback mitigation when the rebalance closes the stream
		sp.RollbackMitigation = true
		// a long poll interval: the waiting goroutine re-checks every interval/5 = 80 ms, i.e. it wakes up
		// after the (few ms long) close has finished
		sp.RMIntervalMs = 400
		vb := 0
		// the stream stays closed for the rebalance delay: a released event would arrive inside the closed window
		sp.Membership = "kubernetesHa"
		// the marker and the first item pass the gate, the second item (not the marker) is the one waiting
		sp.Steps = append(sp.Steps, Step{Op: "persistbelow", VB: vb, N: 1}, Step{Op: "waitrounds", VB: vb, N: 2}, Step{Op: "append", VB: vb, Items: []ItemSpec{{K: "m", Key: []byte("passes-1"), Val: []byte("{}")}, {K: "m", Key: []byte("waits-2"), Val: []byte("{}")}}},
			Step{Op: "persistbelow", VB: vb, Sel: "high-1"}, Step{Op: "waitrounds", VB: vb, N: 2}, Step{Op: "sleep", Ms: 120}, put(false), Step{Op: "waitcycles", N: (i % 2) + 1, Ms: 5000}, Step{Op: "persistbelow", VB: vb, N: 1 << 40})
	case "single":
		sp.Steps = append(sp.Steps, put(false))
	case "during-close-put":
		sp.Steps = append(sp.Steps, Step{Op: "holdeh", Sel: "BSS"}, put(true), Step{Op: "waitheld", Sel: "BSS"}, put(true), app(), Step{Op: "sleep", Ms: 15}, Step{Op: "releaseeh"})
	case "during-close-get":
		sp.Steps = append(sp.Steps, Step{Op: "holdeh", Sel: "BSS"}, put(true), Step{Op: "waitheld", Sel: "BSS"}, get(true), Step{Op: "sleep", Ms: 15}, Step{Op: "releaseeh"})
	case "during-delay":
		sp.Steps = append(sp.Steps, put(false), Step{Op: "waiteh", Sel: "ARS", N: (i % 2) + 1}, Step{Op: "sleep", Ms: d / 3}, put(false))
		if rng.Intn(2) == 0 {
			sp.Steps = append(sp.Steps, Step{Op: "sleep", Ms: d / 3}, put(false))
		}
	case "while-reopening":
		sp.Steps = append(sp.Steps, Step{Op: "holdeh", Sel: "BRE"}, put(false), Step{Op: "waitheld", Sel: "BRE"}, put(false), Step{Op: "sleep", Ms: 15}, Step{Op: "releaseeh"})
	case "right-after":
		sp.Steps = append(sp.Steps, put(false), Step{Op: "waitcycles", N: (i % 2) + 1, Ms: 5000}, put(false))
	case "repeat":
		v := next()
		sp.Steps = append(sp.Steps, Step{Op: "notify", Sel: "put", N: v[0], VB: v[1]}, Step{Op: "waitcycles", N: (i % 2) + 1, Ms: 5000}, settle,
			Step{Op: "notify", Sel: "put", N: v[0], VB: v[1]}, app(), Step{Op: "sleep", Ms: d + 60}, Step{Op: "notify", Sel: "put", N: v[0], VB: v[1]})
	case "oscillation":
		sp.Steps = append(sp.Steps, put(false), Step{Op: "sleep", Ms: d / 4}, Step{Op: "notify", Sel: "put", N: 1, VB: 1}, Step{Op: "sleep", Ms: d / 4}, put(false))
		cur = [2]int{-1, -1}
	case "api-burst":
		sp.Steps = append(sp.Steps, get(false), Step{Op: "sleep", Ms: d / 4}, put(false), Step{Op: "sleep", Ms: d / 4}, put(false))
	case "during-ARE":
		// a further notification arrives while the application's AfterRebalanceEnd handler of the previous cycle is still
		// running: the callbacks of the next cycle must not start inside it
		sp.Steps = append(sp.Steps, Step{Op: "holdeh", Sel: "ARE"}, put(false), Step{Op: "waitheld", Sel: "ARE"}, put(true), Step{Op: "sleep", Ms: 60}, Step{Op: "releaseeh"}, Step{Op: "waitcycles", N: 2, Ms: 5000})
	case "slow-notifier":
		// the notifying goroutine is held up right after it scheduled the reopen (in the log line that follows), so with a zero
		// delay the timer goroutine runs the reopen concurrently with the rest of Rebalance()
		sp.Membership = "dynamic"
		sp.LogDelayMs = map[string]int{"rebalance delay is disabled on dynamic membership": 20 + 10*(i%3)}
		sp.Steps = append(sp.Steps, put(false), Step{Op: "waitcycles", N: 1, Ms: 5000})
		if i%2 == 0 {
			sp.Steps = append(sp.Steps, put(false), Step{Op: "waitcycles", N: 2, Ms: 5000})
		}
	case "late-waiter":
		// the goroutine that waits for the stream-finished signal of the open being closed is descheduled between
		// receiving the signal and looking at the rebalance flag (injected delay at hook point wait.signal):
		// with an immediate reopen (dynamic membership) the rebalance is over when it continues
		sp.Membership = "dynamic"
		sp.HookDelayMs = map[string]int{"wait.signal": 150 + 50*(i%3)}
		sp.Steps = append(sp.Steps, put(false), Step{Op: "waitcycles", N: 1, Ms: 5000}, Step{Op: "sleep", Ms: 400})
		if i%2 == 0 {
			sp.Steps = append(sp.Steps, put(false), Step{Op: "waitcycles", N: 2, Ms: 5000}, Step{Op: "sleep", Ms: 400})
		}
	case "three-sources":
		// bus, API and the re-armed timer: a notification while reopening re-arms the timer; others arrive around it
		sp.Steps = append(sp.Steps, Step{Op: "holdeh", Sel: "BRE"}, put(false), Step{Op: "waitheld", Sel: "BRE"}, put(false), Step{Op: "releaseeh"}, Step{Op: "waiteh", Sel: "ARE", N: (i % 2) + 1}, get(true), put(true))
	}
	sp.Steps = append(sp.Steps, app(), Step{Op: "quiet", Ms: 3*d + 250}, Step{Op: "barrier"}, app(), Step{Op: "barrier"})
	return sp, pl
}

type c11Cycle struct {
	BRS, BSS, ASS, ARS, BRE, BSStart, ASStart, ARE int64
	BREW                                           int64
	Seq                                            []string
}

func OracleRebalance(tr *Trace) ([]Finding, int, bool) {
	var fs []Finding
	sp := tr.Spec
	delay := time.Duration(sp.RebalanceDelayMs) * time.Millisecond
	if sp.Membership == "dynamic" {
		delay = 0
	}
	// lifecycle callbacks after readiness
	var ready int64
	for _, r := range tr.Log {
		if r.K == "ctl.ready" {
			ready = r.T
		}
	}
	var cycles []*c11Cycle
	var cur *c11Cycle
	var seq []string
	for _, r := range tr.Log {
		if !strings.HasPrefix(r.K, "eh.") || strings.HasPrefix(r.K, "eh.held") || r.T < ready {
			continue
		}
		name := r.K[3:]
		seq = append(seq, name)
		if name == "BRS" {
			cur = &c11Cycle{BRS: r.T}
			cycles = append(cycles, cur)
		}
		if cur == nil {
			continue
		}
		cur.Seq = append(cur.Seq, name)
		switch name {
		case "BSS":
			cur.BSS = r.T
		case "ASS":
			cur.ASS = r.T
		case "ARS":
			cur.ARS = r.T
		case "BRE":
			cur.BRE, cur.BREW = r.T, r.W
		case "BSStart":
			cur.BSStart = r.T
		case "ASStart":
			cur.ASStart = r.T
		case "ARE":
			cur.ARE = r.T
		}
	}
	// (1) bracket grammar over the whole callback sequence after readiness:  (BRS (BSS ASS)? ARS BRE BSStart ASStart ARE)*  with a final BSS ASS of the shutdown
	g := strings.Join(seq, " ")
	rest := g
	for rest != "" {
		switch {
		case strings.HasPrefix(rest, "BRS BSS ASS ARS BRE BSStart ASStart ARE"):
			rest = strings.TrimSpace(rest[len("BRS BSS ASS ARS BRE BSStart ASStart ARE"):])
		case strings.HasPrefix(rest, "BRS ARS BRE BSStart ASStart ARE"):
			rest = strings.TrimSpace(rest[len("BRS ARS BRE BSStart ASStart ARE"):])
		case rest == "BSS ASS":
			rest = ""
		default:
			fs = append(fs, Finding{"C11", "grammar", "C11/grammar", fmt.Sprintf("lifecycle callbacks not properly bracketed: ...%s (whole sequence: %s)", trunc(rest, 120), trunc(g, 300))})
			rest = ""
		}
	}
	// (2) nothing delivered while closed
	closedFrom := int64(0)
	for _, r := range tr.Log {
		switch r.K {
		case "eh.ASS":
			closedFrom = r.T
		case "eh.BSStart":
			closedFrom = 0
		case "cons.deliver.call":
			if closedFrom != 0 && r.T > ready {
				fs = append(fs, Finding{"C11", "deliver-while-closed", "C11/deliver-while-closed", fmt.Sprintf("vb %d seq %d delivered at tick %d although the stream was stopped at tick %d and not yet restarted", r.VB, r.Seq, r.T, closedFrom)})
				closedFrom = 0
			}
		}
	}
	// (2b) no lifecycle callback starts while another one is still running
	{
		open := ""
		var openT int64
		for _, r := range tr.Log {
			if strings.HasPrefix(r.K, "eh.") && !strings.HasPrefix(r.K, "eh.held.") {
				if open != "" {
					fs = append(fs, Finding{"C11", "grammar", "C11/callback-inside-callback", fmt.Sprintf("callback %s started (tick %d) while %s (entered at tick %d) had not returned: %s", r.K[3:], r.T, open, openT, trunc(g, 200))})
					break
				}
				open, openT = r.K[3:], r.T
			} else if strings.HasPrefix(r.K, "ehret.") && r.K[6:] == open {
				open = ""
			}
		}
	}
	// (3) notifications and bursts
	type notif struct {
		call, ret     int64
		callW         int64
		kind          string
		effective     bool // would the library treat it as a notification (changed membership / accepted GET)?
		ambiguous     bool
		member, total int
	}
	var ns []*notif
	byID := map[uint64]*notif{}
	lastPut := [2]int{sp.FirstInfo[0], sp.FirstInfo[1]}
	for _, r := range tr.Log {
		switch r.K {
		case "ctl.notify.call":
			n := &notif{call: r.T, callW: r.W, kind: r.S, member: int(r.B), total: int(r.C)}
			byID[r.A] = n
			ns = append(ns, n)
			if r.S == "put" {
				n.effective = [2]int{n.member, n.total} != lastPut
				lastPut = [2]int{n.member, n.total}
			}
		case "ctl.notify.ret":
			if n := byID[r.A]; n != nil {
				n.ret = r.T
				if n.kind == "get" {
					n.effective = strings.HasPrefix(r.S, "get:OK")
				}
			}
		}
	}
	// a repeated membership value must not cause an interruption: handled through `effective` (not a notification)
	var eff []*notif
	for _, n := range ns {
		if n.effective {
			eff = append(eff, n)
		}
	}
	// bursts: a notification joins the current burst when it arrives before the reopen (BRE) of the cycle
	// its predecessors triggered. Attribution near a BRE is ambiguous (the bus delivers asynchronously), so
	// both counts are admitted.
	minB, maxB := 0, 0
	{
		i := 0
		ci := 0
		for i < len(eff) {
			minB++
			maxB++
			// the cycle triggered by this burst: first cycle whose BRS >= the notification's call tick (or already running)
			for ci < len(cycles) && cycles[ci].BRE != 0 && cycles[ci].BRE < eff[i].call {
				ci++
			}
			if ci >= len(cycles) {
				break
			}
			bre := cycles[ci].BRE
			j := i + 1
			for j < len(eff) && (bre == 0 || eff[j].call < bre) {
				// arrives before the reopen started: same burst - unless the bus delivered it late
				// A PUT travels over the asynchronous bus and is serialized behind the handler of its predecessor:
				// without a delay (dynamic membership) it may legitimately be handled after the reopen began.
				// Any notification issued less than 25 ms before the reopen is treated the same way.
				// A notification whose call had not returned when the reopen began (an HTTP request that was slow to arrive,
				// a GET waiting inside Rebalance()) may have reached the stream on either side of it as well.
				if bre != 0 && ((eff[j].kind == "put" && delay == 0) || cycles[ci].BREW-eff[j].callW < int64(25*time.Millisecond) || eff[j].ret == 0 || eff[j].ret > bre) {
					maxB++
				}
				j++
			}
			i = j
			ci++
		}
	}
	ncycles := len(cycles)
	complete := 0
	for _, c := range cycles {
		if c.ARE != 0 {
			complete++
		}
	}
	firstEver := len(cycles) > 0
	if len(eff) > 0 {
		if ncycles < minB {
			fs = append(fs, Finding{"C11", "cycles", "C11/missing-cycle", fmt.Sprintf("%d burst(s) of notifications but only %d close/reopen cycle(s): %s", minB, ncycles, trunc(g, 300))})
		}
		if ncycles > maxB {
			shape := "other"
			// known shape: a second notification through the API while the first-ever rebalance is inside its close
			for _, n := range eff {
				if n.kind == "get" && len(cycles) > 0 && n.call > cycles[0].BRS && cycles[0].ASS != 0 && n.call < cycles[0].ARS {
					shape = "api-call-during-close-of-first-ever-rebalance"
				}
			}
			fs = append(fs, Finding{"C11", "cycles", "C11/extra-cycle/" + shape, fmt.Sprintf("%d..%d burst(s) of notifications but %d close/reopen cycles: %s", minB, maxB, ncycles, trunc(g, 300))})
		}
	} else if ncycles > 0 {
		fs = append(fs, Finding{"C11", "cycles", "C11/interruption-without-change", fmt.Sprintf("no effective membership change, yet %d close/reopen cycle(s) ran: %s", ncycles, trunc(g, 200))})
	}
	_ = firstEver
	// (4) the reopen happens no earlier than the delay after every notification of its burst
	for ci, c := range cycles {
		if c.BRE == 0 || delay == 0 {
			continue
		}
		for _, n := range eff {
			if n.ret != 0 && n.ret < c.BRE && n.call > c.BRS-1 || (n.call < c.BRE && n.ret != 0 && n.ret < c.BRE && (ci == 0 || n.call > cycles[ci-1].BRE)) {
				if gap := time.Duration(c.BREW - n.callW); gap < delay*98/100 {
					fs = append(fs, Finding{"C11", "delay", "C11/reopen-before-delay", fmt.Sprintf("cycle %d reopened %v after a notification of its burst, configured delay %v", ci, gap, delay)})
					break
				}
			}
		}
	}
	// (5) every reopen covers exactly the chunk of the most recent membership information and resumes from the store
	var memb []evlog.Rec
	for _, r := range tr.Log {
		if r.K == "ctl.membership" || r.K == "ctl.notify.call" && r.S == "put" {
			memb = append(memb, r)
		}
	}
	for ci, c := range cycles {
		if c.ASStart == 0 {
			continue
		}
		// candidates: the last membership value whose PUT returned before BSStart, plus any PUT in flight at that time
		var cands [][2]int
		var last [2]int = [2]int{sp.FirstInfo[0], sp.FirstInfo[1]}
		for _, r := range tr.Log {
			if r.K == "ctl.membership" && r.T < c.BSStart {
				last = [2]int{int(r.A), int(r.B)}
			}
		}
		cands = append(cands, last)
		for _, n := range ns {
			if n.kind == "put" && n.call < c.ASStart && (n.ret == 0 || n.ret > c.BRE-200) {
				cands = append(cands, [2]int{n.member, n.total})
			}
		}
		got := map[int]bool{}
		for vb, segs := range tr.Segs {
			for _, sg := range segs {
				if sg.ReqT > c.BSStart && sg.ReqT < c.ASStart {
					got[vb] = true
				}
			}
		}
		ok := false
		var wantDesc []string
		for _, cd := range cands {
			if cd[1] <= 0 || cd[0] <= 0 || cd[0] > cd[1] || cd[1] > sp.NumVB {
				continue
			}
			all := make([]uint16, sp.NumVB)
			for i := range all {
				all[i] = uint16(i)
			}
			chunk := helpers.ChunkSlice[uint16](all, cd[1])[cd[0]-1]
			same := len(chunk) == len(got)
			for _, v := range chunk {
				if !got[int(v)] {
					same = false
				}
			}
			wantDesc = append(wantDesc, fmt.Sprintf("%d/%d=>%v", cd[0], cd[1], chunk))
			if same {
				ok = true
			}
		}
		if !ok {
			var gl []int
			for vb := 0; vb < sp.NumVB; vb++ {
				if got[vb] {
					gl = append(gl, vb)
				}
			}
			fs = append(fs, Finding{"C11", "range", "C11/reopen-range", fmt.Sprintf("cycle %d reopened vBuckets %v; most recent membership information gives %v", ci, gl, wantDesc)})
		}
		// resume from the stored checkpoints
		store := map[int]tuple{}
		for vb, ps := range sp.PreStore {
			store[vb] = tuple{ps[0], ps[1], ps[2], ps[3]}
		}
		for _, w := range storeWrites(tr) {
			if w.T < c.BSStart {
				store[w.VB] = w.Tup
			}
		}
		overlapping := false // a save whose store call overlaps the reopen's load: the load may see either state
		{
			calls := map[uint64]int64{}
			for _, r := range tr.Log {
				switch r.K {
				case "md.save.call":
					calls[r.A] = r.T
				case "md.save.ret":
					if ct, ok := calls[r.A]; ok && ct < c.ASStart && r.T > c.BSStart {
						overlapping = true
					}
					delete(calls, r.A)
				}
			}
			for _, ct := range calls {
				if ct < c.ASStart {
					overlapping = true // still in flight
				}
			}
		}
		if sp.Backend == "file" {
			// whole-state back end: every COMPLETED save rewrites the file from its dump. A checkpoint once stored stays
			// stored: the dump of a later save carries it along (also for a vBucket the member does not own at that time), so
			// the model is cumulative - a save that drops an entry loses a stored checkpoint.
			done := map[uint64]bool{}
			for _, r := range tr.Log {
				if r.K == "md.save.ret" && r.S == "" && r.T < c.BSStart {
					done[r.A] = true
				}
			}
			var order []uint64
			for n := range done {
				order = append(order, n)
			}
			sort.Slice(order, func(a, b int) bool { return order[a] < order[b] })
			if len(order) > 0 {
				store = map[int]tuple{}
				for vb, ps := range sp.PreStore {
					store[vb] = tuple{ps[0], ps[1], ps[2], ps[3]}
				}
				for _, n := range order {
					for _, r := range tr.Log {
						if r.K == "md.state" && r.A == n {
							store[r.VB] = tuple{r.D, r.Seq, r.B, r.C}
						}
					}
				}
			}
		}
		inflight := map[int]bool{}
		for _, w := range storeWrites(tr) {
			if w.T >= c.BSStart && w.T < c.ASStart {
				inflight[w.VB] = true
			}
		}
		for vb, segs := range tr.Segs {
			for _, sg := range segs {
				if sg.ReqT > c.BSStart && sg.ReqT < c.ASStart && !sg.Rollback && !inflight[vb] && !overlapping {
					want := store[vb]
					if (tuple{sg.ReqUUID, sg.Start, sg.SnapS, sg.SnapE}) != want {
						fs = append(fs, Finding{"C11", "resume", "C11/reopen-not-from-store", fmt.Sprintf("cycle %d: vb %d requested from (uuid %x, %d, [%d,%d]), the store held (uuid %x, %d, [%d,%d])", ci, vb, sg.ReqUUID, sg.Start, sg.SnapS, sg.SnapE, want.uuid, want.seq, want.ss, want.se)})
					}
				}
			}
		}
	}
	// (6) a rebalance never terminates the client
	var closeCall, startRet int64
	for _, r := range tr.Log {
		if r.K == "ctl.close.call" && closeCall == 0 {
			closeCall = r.T
		}
		if r.K == "ctl.start.ret" {
			startRet = r.T
		}
	}
	if startRet != 0 && (closeCall == 0 || startRet < closeCall) {
		fs = append(fs, Finding{"C11", "terminated", "C11/client-terminated", fmt.Sprintf("Start() returned at tick %d without Close() having been called: the rebalance stopped the client (%s)", startRet, trunc(g, 200))})
	}
	// (7) never reopening
	for ci, c := range cycles {
		if c.ARE == 0 && closeCall != 0 && c.BRS < closeCall {
			fs = append(fs, Finding{"C11", "never-reopened", "C11/never-reopened", fmt.Sprintf("cycle %d (started at tick %d) never completed its reopen before the session ended (callbacks: %v)", ci, c.BRS, c.Seq)})
		}
	}
	nontrivial := maxB >= 1 && len(eff) >= 2
	return fs, ncycles, nontrivial
}

func init() {
	drv.Register(&drv.Prop{
		ID: "C11", Level: "exploration", Parallel: 12, Batch: 1, MinConclusive: 30,
		Rule: "bursts of 1-4 membership-change notifications (PUT /membership/info through the bus, GET /rebalance through the API, the re-armed timer) are placed - by holding lifecycle callbacks - during the close, during the delay, while reopening and right after, " +
			"on the first-ever and on later rebalances, with repeated and oscillating values, dynamic (no delay) and bus-fed kubernetesHa (configured delay) membership, three metadata back ends, events flowing throughout. " +
			"Oracle over the recorded callbacks, notifications and stream requests: bracket grammar; number of close/reopen cycles within the admitted burst count (both attributions of an asynchronously delivered notification are tried); no delivery while stopped; " +
			"reopen >= delay after every notification of its burst (wall-clock lower bound only); reopened vBucket set == chunk of the most recent membership value; requests == store; Start() never returns; every cycle completes. " +
			"Non-trivial: a burst of >=2 effective notifications; distinct = distinct (placement, membership type, callback sequence)",
		Assumptions: []string{"a notification is an invocation of Stream.Rebalance(): a changed value PUT to /membership/info, or a GET /rebalance the API answered with OK", "timers never fire early, so the delay check can only pass later under load, never fail"},
		Gen: func(seed int64, tier string) []drv.Scenario {
			rng := rand.New(rand.NewSource(seed))
			n := 100
			if tier == "thorough" {
				n = 1500
			}
			var out []drv.Scenario
			for i := 0; i < n; i++ {
				sp, pl := c11Spec(rng, i)
				out = append(out, drv.Scenario{Kind: pl, Seed: seed, Params: mustJSON(sp), TimeoutS: 120, Solo: true})
			}
			// a save that is under way when a rebalance closes the stream (injected delay at the guarded hook point save.marks):
			// what the store held before is still there when the stream is reopened
			sr := rand.New(rand.NewSource(seed*19 + 4))
			for j := 0; j < n/25; j++ {
				sp := &SessSpec{NumVB: 3 + sr.Intn(4), Nodes: 1, AckSeed: sr.Int63(), Backend: []string{"file", "mem", "cb"}[j%3], Backlog: map[int][][]ItemSpec{}, Membership: "kubernetesHa",
					RebalanceDelayMs: 600, FirstInfo: [2]int{1, 1}, PNow: 1}
				o := &HistOpts{NumVB: sp.NumVB, PSystem: 0.04, PSeqAdv: 0.1, MaxItems: 4}
				ctr := 0
				for vb := 0; vb < sp.NumVB; vb++ {
					sp.Backlog[vb] = append(sp.Backlog[vb], genSnap(sr, o, &ctr))
				}
				sp.Steps = []Step{{Op: "barrier"}, {Op: "commit"}, {Op: "append", VB: 0, Items: genSnap(sr, o, &ctr)}, {Op: "barrier"},
					{Op: "armhook", Sel: "save.marks", N: 1, Ms: 250}, {Op: "commitasync"}, {Op: "sleep", Ms: 40},
					{Op: "notify", Sel: "put", N: 1, VB: 2}, {Op: "waitcycles", N: 1, Ms: 5000}, {Op: "quiet", Ms: 1500}, {Op: "barrier"}, {Op: "commit"}}
				out = append(out, drv.Scenario{Kind: "save-across-close", Seed: seed, Params: mustJSON(sp), TimeoutS: 120, Solo: true})
			}
			// the application calls Commit() inside the closed window of a rebalance (after the close, inside the delay, while the
			// reopen is held): nothing to save there, and certainly nothing that stops the client
			cr := rand.New(rand.NewSource(seed*23 + 17))
			for j := 0; j < n/25; j++ {
				sp := &SessSpec{NumVB: 2 + cr.Intn(4), Nodes: 1, AckSeed: cr.Int63(), Backend: []string{"mem", "file", "cb"}[j%3], Backlog: map[int][][]ItemSpec{}, Membership: "kubernetesHa",
					RebalanceDelayMs: 150 + cr.Intn(100), FirstInfo: [2]int{1, 1}, PNow: 1}
				o := &HistOpts{NumVB: sp.NumVB, PSystem: 0.04, PSeqAdv: 0.1, MaxItems: 4}
				ctr := 0
				for vb := 0; vb < sp.NumVB; vb++ {
					sp.Backlog[vb] = append(sp.Backlog[vb], genSnap(cr, o, &ctr))
				}
				h := []string{"ASS", "BRE", ""}[j%3]
				sp.Steps = []Step{{Op: "barrier"}, {Op: "commit"}}
				if h != "" {
					sp.Steps = append(sp.Steps, Step{Op: "holdeh", Sel: h}, Step{Op: "notify", Sel: "put", N: 1, VB: 2, Ms: 1}, Step{Op: "waitheld", Sel: h}, Step{Op: "commit"}, Step{Op: "releaseeh"})
				} else {
					sp.Steps = append(sp.Steps, Step{Op: "notify", Sel: "put", N: 1, VB: 2}, Step{Op: "waiteh", Sel: "ASS"}, Step{Op: "sleep", Ms: 40}, Step{Op: "commit"})
				}
				sp.Steps = append(sp.Steps, Step{Op: "waitcycles", N: 1, Ms: 5000}, Step{Op: "quiet", Ms: 800}, Step{Op: "barrier"}, Step{Op: "commit"})
				out = append(out, drv.Scenario{Kind: "commit-in-window", Seed: seed, Params: mustJSON(sp), TimeoutS: 120, Solo: true})
			}
			nd := 12
			if tier == "thorough" {
				nd = 120
			}
			for i := 0; i < nd; i++ {
				dp := &c11DirectParams{NumVB: 1 + rng.Intn(6), Rebalances: 3 + rng.Intn(6), Membership: []string{"dynamic", "static"}[i%2], DelayMs: 1 + rng.Intn(5)}
				out = append(out, drv.Scenario{Kind: "direct", Seed: seed, Params: mustJSON(dp), TimeoutS: 120, Solo: true, GoMaxProcs: []int{1, 1, 2, 4}[i%4]})
			}
			return out
		},
		Run: func(sc drv.Scenario) drv.Result {
			if sc.Kind == "direct" {
				var dp c11DirectParams
				if err := json.Unmarshal(sc.Params, &dp); err != nil {
					return drv.Result{Verdict: drv.Inconclusive, Detail: err.Error()}
				}
				return c11RunDirect(sc, &dp)
			}
			var sp SessSpec
			if err := json.Unmarshal(sc.Params, &sp); err != nil {
				return drv.Result{Verdict: drv.Inconclusive, Detail: err.Error()}
			}
			tr := RunSession(&sp)
			fs, ncycles, nt := OracleRebalance(tr)
			var cb []string
			for _, r := range tr.Log {
				if strings.HasPrefix(r.K, "eh.") && !strings.HasPrefix(r.K, "eh.held") {
					cb = append(cb, r.K[3:])
				}
			}
			sample := map[string]any{"placement": sc.Kind, "membership": sp.Membership, "delay_ms": sp.RebalanceDelayMs, "cycles": ncycles, "callbacks": strings.Join(cb, " "), "notifications": tr.count("ctl.notify.call")}
			r := sessionResult("C11", tr, fs, nt, sample)
			r.TraceHash = drv.Hash(sc.Kind, sp.Membership, strings.Join(cb, " "))
			r.Checks = ncycles
			r.Events["cycles"] = ncycles
			r.Events["notifications"] = tr.count("ctl.notify.call")
			return r
		},
		OnDeath: func(sc drv.Scenario, out drv.ChildOutcome) drv.Result {
			if drv.IsLibraryPanic(out.Stderr) {
				return drv.Result{Verdict: drv.Violated, Clause: "terminated", FindingKey: "C11/process-death", Detail: "the process died during a rebalance: " + drv.PanicLine(out.Stderr), Witness: out.Stderr}
			}
			return drv.Result{Verdict: drv.Inconclusive, Detail: "child ended: " + drv.PanicLine(out.Stderr)}
		},
	})
}
