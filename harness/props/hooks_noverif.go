//go:build !verif

package props

import "verif/harness/evlog"

func setHookDelays(l *evlog.Log, d map[string]int) {}
func armHook(point string, n, ms int)              {}
