package props

import (
	"encoding/json"
	"fmt"
	"math/rand"
	"strings"
	"sync"
	"time"

	"github.com/Trendyol/go-dcp/couchbase"

	"verif/harness/cbsim"
	"verif/harness/drv"
	"verif/harness/evlog"
	"verif/harness/hx"
)

// C18 — version order total, parser faithful, gating monotone.

type c18Params struct {
	Tuples  [][4]int  `json:"tuples,omitempty"`  // order: block of left-hand tuples (compared with the full set)
	Set     string    `json:"set,omitempty"`     // which full set: grid | extreme
	Strings []string  `json:"strings,omitempty"` // parse
	Gates   []c18Gate `json:"gates,omitempty"`
}

type c18Gate struct {
	V       [4]int
	Storage string
	Bucket  string
	// Reopen: the stream is closed and reopened once (GET /rebalance) before the close that is measured
	Reopen bool `json:",omitempty"`
}

func c18Grid() [][4]int {
	var out [][4]int
	for ma := 0; ma <= 8; ma++ {
		for mi := 0; mi <= 7; mi++ {
			for pa := 0; pa <= 3; pa++ {
				for _, b := range []int{0, 1, 4999, 5000} {
					out = append(out, [4]int{ma, mi, pa, b})
				}
			}
		}
	}
	return out
}

func c18Extreme() [][4]int {
	var out [][4]int
	for _, ma := range []int{0, 5, 6, 7, 8, 10, 100} {
		for _, mi := range []int{0, 1, 2, 4, 5, 6, 9, 10, 99, 100} {
			for _, pa := range []int{0, 1, 5, 6, 9, 10, 99, 100, 255} {
				for _, b := range []int{0, 50, 80, 9999, 10000, 10001, 10080, 1000000, 1<<31 - 1} {
					out = append(out, [4]int{ma, mi, pa, b})
				}
			}
		}
	}
	return out
}

// neighbourhood of the gates for the triple check
func c18Neigh() [][4]int {
	var out [][4]int
	for _, g := range [][3]int{{5, 5, 0}, {6, 5, 0}, {7, 2, 0}} {
		for dm := -1; dm <= 1; dm++ {
			for _, pa := range []int{0, 1} {
				for _, b := range []int{0, 1, 5000} {
					mi := g[1] + dm
					out = append(out, [4]int{g[0], mi, pa, b})
				}
			}
		}
		out = append(out, [4]int{g[0] - 1, 9, 9, 9999}, [4]int{g[0] + 1, 0, 0, 0})
	}
	return out
}

func cmpLex(a, b [4]int) int {
	for i := 0; i < 4; i++ {
		if a[i] < b[i] {
			return -1
		}
		if a[i] > b[i] {
			return 1
		}
	}
	return 0
}

func ver(t [4]int) *couchbase.Version {
	return &couchbase.Version{Major: t[0], Minor: t[1], Patch: t[2], Build: t[3]}
}

func init() {
	drv.Register(&drv.Prop{
		ID: "C18", Level: "exploration", Exhaustive: true, Parallel: 16, Batch: 4,
		Rule: "order: all ordered pairs over the 1152-tuple grid {0..8}x{0..7}x{0..3}x{0,1,4999,5000} and over a 5670-tuple extreme-value set " +
			"(two/three-digit minors and patches, builds up to 2^31-1) are executed through Version.Lower/Equal/Higher (exactly-one, antisymmetry, agreement with the lexicographic order); " +
			"all triples over the gate neighbourhood are checked for transitivity; parse: generated version strings are parsed through HTTPClient.GetVersion() against the simulated /pools; " +
			"gate: NewDcp+Start+Close against the simulated node per (version, storage) with DCP_CONTROL keys and CLOSE_STREAM concurrency decoded from the wire. " +
			"distinct_nontrivial = distinct left-hand tuples + distinct well-formed strings with build and edition + distinct gate cases at a gate boundary",
		Assumptions:   []string{"natural order on versions is the lexicographic order of (major,minor,patch,build)", "cbsim imitates /pools and DCP_CONTROL faithfully"},
		MinConclusive: 10,
		Gen: func(seed int64, tier string) []drv.Scenario {
			var out []drv.Scenario
			rng := rand.New(rand.NewSource(seed))
			add := func(kind string, p c18Params, to int) {
				raw, _ := json.Marshal(p)
				out = append(out, drv.Scenario{Kind: kind, Seed: seed, Params: raw, TimeoutS: to})
			}
			for _, set := range []string{"grid", "extreme"} {
				all := c18Grid()
				if set == "extreme" {
					all = c18Extreme()
				}
				blk := (len(all) + 15) / 16
				for i := 0; i < len(all); i += blk {
					j := i + blk
					if j > len(all) {
						j = len(all)
					}
					add("order", c18Params{Tuples: all[i:j], Set: set}, 300)
				}
			}
			add("triples", c18Params{}, 300)
			if tier == "thorough" {
				// random tuples against the extreme set
				var tp [][4]int
				for i := 0; i < 20000; i++ {
					tp = append(tp, [4]int{rng.Intn(12), rng.Intn(120), rng.Intn(300), rng.Intn(1 << 20)})
				}
				for i := 0; i < len(tp); i += 2500 {
					add("order", c18Params{Tuples: tp[i : i+2500], Set: "extreme"}, 600)
				}
			}
			// parse
			ns := 3000
			if tier == "thorough" {
				ns = 100000
			}
			var strs []string
			for i := 0; i < ns; i++ {
				strs = append(strs, c18GenString(rng))
			}
			per := 750
			for i := 0; i < len(strs); i += per {
				j := i + per
				if j > len(strs) {
					j = len(strs)
				}
				add("parse", c18Params{Strings: strs[i:j]}, 600)
			}
			// gates
			var gates []c18Gate
			vers := [][4]int{{4, 6, 5, 0}, {5, 0, 0, 0}, {5, 4, 9, 9999}, {5, 5, 0, 0}, {5, 5, 0, 1}, {5, 5, 0, 2958}, {5, 5, 1, 0}, {6, 0, 0, 0},
				{6, 4, 9, 9999}, {6, 4, 99, 10001}, {6, 5, 0, 0}, {6, 5, 0, 1}, {6, 5, 0, 4960}, {6, 5, 1, 0}, {6, 6, 5, 10080}, {7, 0, 0, 0}, {7, 1, 9, 9999},
				{7, 2, 0, 0}, {7, 2, 0, 1}, {7, 2, 0, 5325}, {7, 2, 1, 0}, {7, 6, 3, 4200}, {8, 0, 0, 0}, {10, 0, 0, 0}}
			for _, v := range vers {
				for _, st := range []string{"couchstore", "magma", "ephemeral"} {
					g := c18Gate{V: v, Storage: st, Bucket: "membase"}
					if st == "ephemeral" {
						g = c18Gate{V: v, Storage: "", Bucket: "ephemeral"}
					}
					gates = append(gates, g)
				}
			}
			// the serial-close gate once more after the stream has been closed and reopened (one API-enabled client per child)
			for _, v := range [][4]int{{5, 0, 0, 0}, {5, 4, 9, 9999}, {5, 5, 0, 0}, {7, 6, 3, 4200}} {
				raw, _ := json.Marshal(c18Params{Gates: []c18Gate{{V: v, Storage: "couchstore", Bucket: "membase", Reopen: true}}})
				out = append(out, drv.Scenario{Kind: "gate", Seed: seed, Params: raw, TimeoutS: 120, Solo: true})
			}
			for i := 0; i < len(gates); i += 9 {
				j := i + 9
				if j > len(gates) {
					j = len(gates)
				}
				add("gate", c18Params{Gates: gates[i:j]}, 300)
			}
			return out
		},
		Run: runC18,
		OnDeath: func(sc drv.Scenario, out drv.ChildOutcome) drv.Result {
			if sc.Kind == "parse" && drv.IsLibraryPanic(out.Stderr) {
				return drv.Result{Verdict: drv.Violated, Clause: "parse-crash", FindingKey: "C18/parse-crash", Detail: "process died while parsing a version string: " + drv.PanicLine(out.Stderr) + " notes=" + strings.Join(out.Notes, ";")}
			}
			return drv.Result{Verdict: drv.Inconclusive, Detail: "child died: " + drv.PanicLine(out.Stderr)}
		},
	})
}

func c18GenString(rng *rand.Rand) string {
	num := func(max int) string {
		n := rng.Intn(max)
		s := fmt.Sprint(n)
		if rng.Intn(8) == 0 {
			s = strings.Repeat("0", 1+rng.Intn(2)) + s
		}
		return s
	}
	switch rng.Intn(10) {
	case 0: // malformed
		return []string{"", "abc", "7", "7.", "7.x.1", "..", "7.6.3.1-100-enterprise", "7.6.3-abc-enterprise", "99999999999999999999.1.1-1-e",
			"7.6", "-1.2.3-4-e", "7.6.3-", "7.6.-3", " 7.6.3-1-enterprise", "7.6.3-1-enterprise-extra-dashes", "1e3.0.0-1-x"}[rng.Intn(16)]
	case 1:
		return num(12) + "." + num(12) + "." + num(12)
	case 2:
		return num(12) + "." + num(12) + "." + num(12) + "-" + num(20000)
	default:
		ed := []string{"enterprise", "community", "ee", "enterprise-x86"}[rng.Intn(4)]
		if rng.Intn(4) != 0 {
			ed = "enterprise"
		}
		if rng.Intn(3) == 0 {
			return num(12) + "." + num(120) + "." + num(300) + "-" + num(100000) + "-" + ed
		}
		return num(9) + "." + num(8) + "." + num(10) + "-" + num(20000) + "-" + ed
	}
}

// parseWellFormed returns the tuple a full-form string denotes, ok=false when the string is not of the
// form M.m.p-build-edition with plain decimal numbers.
func c18Denotes(s string) ([4]int, bool) {
	var t [4]int
	dots := strings.Split(s, ".")
	if len(dots) != 3 {
		return t, false
	}
	dash := strings.SplitN(dots[2], "-", 3)
	if len(dash) != 3 || dash[2] == "" {
		return t, false
	}
	parts := []string{dots[0], dots[1], dash[0], dash[1]}
	for i, p := range parts {
		if p == "" || len(p) > 9 {
			return t, false
		}
		n := 0
		for _, c := range p {
			if c < '0' || c > '9' {
				return t, false
			}
			n = n*10 + int(c-'0')
		}
		t[i] = n
	}
	return t, true
}

func runC18(sc drv.Scenario) drv.Result {
	hx.QuietLogger()
	var p c18Params
	_ = json.Unmarshal(sc.Params, &p)
	res := drv.Result{Verdict: drv.Held, Events: map[string]int{}}
	viol := func(clause, detail string, w any) drv.Result {
		return drv.Result{Verdict: drv.Violated, Clause: clause, FindingKey: "C18/" + clause, Detail: detail, Witness: w}
	}
	switch sc.Kind {
	case "order":
		all := c18Grid()
		if p.Set == "extreme" {
			all = c18Extreme()
		}
		for _, a := range p.Tuples {
			va := ver(a)
			for _, b := range all {
				vb := ver(b)
				l, e, h := va.Lower(vb), va.Equal(vb), va.Higher(vb)
				res.Checks++
				n := 0
				for _, x := range []bool{l, e, h} {
					if x {
						n++
					}
				}
				if n != 1 {
					return viol("exactly-one", fmt.Sprintf("%v vs %v: lower=%v equal=%v higher=%v", a, b, l, e, h), nil)
				}
				if l != vb.Higher(va) || h != vb.Lower(va) || e != vb.Equal(va) {
					return viol("antisymmetry", fmt.Sprintf("%v vs %v: lower=%v equal=%v higher=%v but reverse higher=%v lower=%v equal=%v", a, b, l, e, h, vb.Higher(va), vb.Lower(va), vb.Equal(va)), nil)
				}
				c := cmpLex(a, b)
				if (c < 0) != l || (c == 0) != e || (c > 0) != h {
					return viol("order", fmt.Sprintf("%v vs %v: lexicographic order says %d but lower=%v equal=%v higher=%v", a, b, c, l, e, h), nil)
				}
			}
		}
		res.SubEvals = res.Checks
		res.SubDistinct = len(p.Tuples)
		res.Nontrivial = true
		res.TraceHash = drv.Hash("order", p.Set, fmt.Sprint(p.Tuples[0]), fmt.Sprint(len(p.Tuples)))
		res.Events["pairs"] = res.Checks
		res.Sample = map[string]any{"set": p.Set, "left_tuples": len(p.Tuples), "first": p.Tuples[0], "pairs": res.Checks}
	case "triples":
		ng := c18Neigh()
		for _, a := range ng {
			for _, b := range ng {
				for _, c := range ng {
					res.Checks++
					va, vb, vc := ver(a), ver(b), ver(c)
					if va.Lower(vb) && vb.Lower(vc) && !va.Lower(vc) {
						return viol("transitivity", fmt.Sprintf("%v<%v<%v but not %v<%v", a, b, c, a, c), nil)
					}
					if va.Higher(vb) && vb.Higher(vc) && !va.Higher(vc) {
						return viol("transitivity", fmt.Sprintf("%v>%v>%v but not %v>%v", a, b, c, a, c), nil)
					}
					if va.Equal(vb) && vb.Equal(vc) && !va.Equal(vc) {
						return viol("transitivity", fmt.Sprintf("equal not transitive on %v %v %v", a, b, c), nil)
					}
				}
			}
		}
		res.SubEvals = res.Checks
		res.Nontrivial = true
		res.SubDistinct = len(ng)
		res.TraceHash = "triples"
		res.Events["triples"] = res.Checks
		res.Sample = map[string]any{"neighbourhood": len(ng), "triples": res.Checks}
	case "parse":
		env, err := hx.NewEnv(hx.EnvOpts{NumVB: 2})
		if err != nil {
			return drv.Result{Verdict: drv.Inconclusive, Detail: err.Error()}
		}
		defer env.Close()
		cfg := env.BaseConfig()
		cfg.HealthCheck.Timeout = 5 * time.Second
		cfg.ApplyDefaults()
		cl := couchbase.NewClient(cfg)
		if err := cl.Connect(); err != nil {
			return drv.Result{Verdict: drv.Inconclusive, Detail: "connect: " + err.Error()}
		}
		defer cl.Close()
		hc := couchbase.NewHTTPClient(cfg, cl)
		if err := hc.Connect(); err != nil {
			return drv.Result{Verdict: drv.Inconclusive, Detail: "http connect: " + err.Error()}
		}
		full := map[string]bool{}
		var ex []string
		for _, s := range p.Strings {
			env.Sim.SetVersion(s)
			drv.Note("parsing %q", s)
			v, err := hc.GetVersion()
			res.Checks++
			want, ok := c18Denotes(s)
			if ok {
				res.Events["wellformed"]++
				if err != nil || v == nil {
					return viol("parse", fmt.Sprintf("%q: error %v", s, err), nil)
				}
				got := [4]int{v.Major, v.Minor, v.Patch, v.Build}
				if got != want {
					return viol("parse", fmt.Sprintf("%q parsed to %v, denotes %v", s, got, want), nil)
				}
				full[s] = true
				if len(ex) < 3 {
					ex = append(ex, fmt.Sprintf("%q -> %v", s, got))
				}
			} else {
				res.Events["other"]++
				if err == nil && v == nil {
					return viol("parse-nil", fmt.Sprintf("%q: neither error nor version", s), nil)
				}
				// a shorter spelling (M.m.p or M.m.p-build, plain decimal numbers) that the parser accepts is a prefix of a
				// full-form string: what it spells must come out as in the full form (the order on reported versions stays consistent)
				if full2, okp := c18Denotes(s + map[bool]string{true: "-0-enterprise", false: "-enterprise"}[!strings.Contains(s, "-")]); okp && err == nil && v != nil && !strings.HasSuffix(s, "-") {
					res.Events["prefix_forms"]++
					got := [4]int{v.Major, v.Minor, v.Patch, v.Build}
					wantp := full2
					if !strings.Contains(s, "-") {
						wantp[3] = 0
					}
					if got != wantp {
						return viol("parse-prefix", fmt.Sprintf("%q was accepted and parsed to %v; the full form it is a prefix of denotes %v", s, got, wantp), nil)
					}
				}
			}
		}
		res.SubEvals = res.Checks
		res.SubDistinct = len(full)
		res.Nontrivial = len(full) > 0
		res.TraceHash = drv.Hash("parse", p.Strings[0], fmt.Sprint(len(p.Strings)))
		res.Sample = map[string]any{"strings": len(p.Strings), "wellformed_full": len(full), "examples": ex}
	case "gate":
		nt := 0
		var samples []string
		for _, g := range p.Gates {
			r, desc := c18RunGate(g)
			res.Checks++
			res.Events["gate_runs"]++
			if r.Verdict != drv.Held {
				return r
			}
			for _, gv := range [][4]int{{5, 5, 0, 0}, {6, 5, 0, 0}, {7, 2, 0, 0}} {
				if g.V[0] == gv[0] && g.V[1] == gv[1] && g.V[2] == gv[2] {
					nt++
				}
			}
			if len(samples) < 2 {
				samples = append(samples, desc)
			}
		}
		res.SubEvals = len(p.Gates)
		res.SubDistinct = nt
		res.Nontrivial = nt > 0
		res.TraceHash = drv.Hash("gate", fmt.Sprint(p.Gates))
		res.Sample = map[string]any{"gates": len(p.Gates), "examples": samples}
	}
	return res
}

func c18RunGate(g c18Gate) (drv.Result, string) {
	env, err := hx.NewEnv(hx.EnvOpts{NumVB: 4})
	if err != nil {
		return drv.Result{Verdict: drv.Inconclusive, Detail: err.Error()}, ""
	}
	defer env.Close()
	vs := fmt.Sprintf("%d.%d.%d-%d-enterprise", g.V[0], g.V[1], g.V[2], g.V[3])
	env.Sim.SetVersion(vs)
	env.Sim.SetBucketInfo(g.Bucket, g.Storage)
	// Hold the first CLOSE_STREAM reply until a second CLOSE_STREAM request has been read (or 400 ms).
	var mu sync.Mutex
	closeReqs := 0
	second := make(chan struct{})
	var once sync.Once
	overlapSeen := false
	firstHeld := false
	armed := !g.Reopen
	env.Sim.Hook = func(r *cbsim.Req) *cbsim.Action {
		if r.Op != cbsim.OpDcpCloseStream {
			return nil
		}
		mu.Lock()
		defer mu.Unlock()
		if !armed {
			return nil
		}
		closeReqs++
		if closeReqs == 1 {
			firstHeld = true
			hold := make(chan struct{})
			go func() {
				select {
				case <-second:
					mu.Lock()
					overlapSeen = true
					mu.Unlock()
				case <-time.After(400 * time.Millisecond):
				}
				close(hold)
			}()
			return &cbsim.Action{Hold: hold, Async: true}
		}
		once.Do(func() { close(second) })
		return nil
	}
	cfg := env.BaseConfig()
	if g.Reopen {
		cfg.API.Disabled = false
		cfg.API.Port = hx.FreePort()
		cfg.Dcp.Group.Membership.RebalanceDelay = 20 * time.Millisecond
	}
	f, err := env.StartFull(cfg, hx.FullOpts{})
	if err != nil {
		return drv.Result{Verdict: drv.Inconclusive, Detail: "start: " + err.Error()}, ""
	}
	if g.Reopen {
		url := fmt.Sprintf("http://127.0.0.1:%d/rebalance", cfg.API.Port)
		ok := hx.WaitFor(5*time.Second, func() bool {
			code, _, err := hx.HTTPDo("GET", url, "", 2*time.Second)
			return err == nil && code == 200
		})
		if !ok || !hx.WaitFor(10*time.Second, func() bool { return env.Log.Count("eh.ARE") >= 1 }) {
			f.Close(30 * time.Second)
			return drv.Result{Verdict: drv.Inconclusive, Detail: "the rebalance before the measured close did not complete"}, ""
		}
		mu.Lock()
		armed = true
		mu.Unlock()
	}
	if !f.Close(30 * time.Second) {
		return drv.Result{Verdict: drv.Inconclusive, Detail: "close did not return (owned by C13)", Foreign: []string{"close hang in gate run " + vs}}, ""
	}
	ctl := env.Sim.Controls()
	has := func(k string) bool {
		for _, c := range ctl {
			if strings.HasPrefix(c, k+"=") {
				return true
			}
		}
		return false
	}
	wantExpiry := cmpLex(g.V, [4]int{6, 5, 0, 0}) >= 0
	wantCS := g.Storage == "magma" && cmpLex(g.V, [4]int{7, 2, 0, 0}) >= 0
	wantSerial := cmpLex(g.V, [4]int{5, 5, 0, 0}) < 0
	mu.Lock()
	ov, fh, cr := overlapSeen, firstHeld, closeReqs
	mu.Unlock()
	desc := fmt.Sprintf("%s storage=%q bucket=%s reopened=%v: expiry_opcode=%v change_streams=%v close_requests=%d overlapping=%v", vs, g.Storage, g.Bucket, g.Reopen, has("enable_expiry_opcode"), has("change_streams"), cr, ov)
	w := map[string]any{"version": vs, "storage": g.Storage, "controls": ctl, "close_requests": cr, "overlap": ov}
	if has("enable_expiry_opcode") != wantExpiry {
		return drv.Result{Verdict: drv.Violated, Clause: "gate-expiry", FindingKey: "C18/gate-expiry", Detail: desc, Witness: w}, desc
	}
	if has("change_streams") != wantCS {
		return drv.Result{Verdict: drv.Violated, Clause: "gate-changestreams", FindingKey: "C18/gate-changestreams", Detail: desc, Witness: w}, desc
	}
	if wantSerial && !g.Reopen && cr != 4 {
		// below 5.5.0 the streams are closed one after the other by a loop of the library's own: every one of the 4 open streams
		return drv.Result{Verdict: drv.Violated, Clause: "gate-serial-close", FindingKey: "C18/gate-serial-close-incomplete", Detail: fmt.Sprintf("serial closing below 5.5.0 sent %d CLOSE_STREAM requests for 4 open streams: %s", cr, desc), Witness: w}, desc
	}
	if fh && cr >= 2 {
		if wantSerial && ov {
			return drv.Result{Verdict: drv.Violated, Clause: "gate-serial-close", FindingKey: "C18/gate-serial-close", Detail: "overlapping CLOSE_STREAM below 5.5.0: " + desc, Witness: w}, desc
		}
		if !wantSerial && !ov {
			return drv.Result{Verdict: drv.Violated, Clause: "gate-serial-close", FindingKey: "C18/gate-serial-close-high", Detail: "stream closing serialized at or above 5.5.0 (first reply held 400ms, no second request): " + desc, Witness: w}, desc
		}
	}
	_ = evlog.Rec{}
	return drv.Result{Verdict: drv.Held}, desc
}
