package props

import (
	"encoding/json"
	"fmt"
	"math/rand"
	"strings"
	"time"
	"verif/harness/cbsim"

	"verif/harness/drv"
)

// C13 — graceful shutdown is clean from every lifecycle state.

var c13States = []string{"hc-retrying", "rm-waiting", "idle", "consumer-blocked", "save-held", "save-failing", "reb-in-BSS", "reb-after-ASS", "reb-in-delay", "reb-in-BSStart", "reb-after-ARE", "mid-traffic", "end-during-close", "notify-during-close", "signal-after-close", "signal-only", "close-during-reopen-retry", "map-change-at-close", "close-at-once", "close-during-reconfigure"}

type c13Cfg struct {
	RM, HC, API, Auto bool
	Backend           string
	Membership        string
}

func c13Spec(rng *rand.Rand, state string, c c13Cfg) *SessSpec {
	sp := &SessSpec{NumVB: 2 + rng.Intn(4), Nodes: 1, AckSeed: rng.Int63(), Backend: c.Backend, Backlog: map[int][][]ItemSpec{}, API: c.API || strings.HasPrefix(state, "reb-"),
		RollbackMitigation: c.RM, HealthCheck: c.HC, Auto: c.Auto, IntervalMs: 5, Membership: c.Membership, RebalanceDelayMs: 60}
	if state == "reb-in-delay" {
		sp.RebalanceDelayMs = 400
	}
	if strings.HasPrefix(state, "reb-") && sp.Membership == "" {
		sp.Membership = "dynamic" // rebalances are triggered through PUT /membership/info or GET /rebalance
	}
	sp.PNow, sp.PDefer = 0.6, 0.3
	o := &HistOpts{NumVB: sp.NumVB, PReserved: 0.05, PSystem: 0.05, PSeqAdv: 0.1, MaxItems: 4}
	ctr := 0
	for vb := 0; vb < sp.NumVB; vb++ {
		sp.Backlog[vb] = append(sp.Backlog[vb], genSnap(rng, o, &ctr))
	}
	app := func() Step { return Step{Op: "append", VB: rng.Intn(sp.NumVB), Items: genSnap(rng, o, &ctr)} }
	sp.Steps = append(sp.Steps, Step{Op: "barrier"}, app(), app(), Step{Op: "barrier"}, Step{Op: "ack", Sel: "random", N: 3})
	reb := Step{Op: "rebalanceapi"}
	switch state {
	case "idle":
		sp.Steps = append(sp.Steps, Step{Op: "barrier"})
	case "hc-retrying":
		// the health check is inside a failing round (retry wait) when Close() arrives
		sp.HealthCheck = true
		sp.HCTimeoutMs = []int{2000, 60000}[rng.Intn(2)]
		sp.Steps = append(sp.Steps, Step{Op: "failpings"}, Step{Op: "waitpingfail"}, Step{Op: "sleep", Ms: 30})
	case "rm-waiting":
		// an event waits in rollback mitigation (not yet persisted on the replica set) when Close() arrives
		sp.RollbackMitigation = true
		sp.RMIntervalMs = 400 // the waiting goroutine re-checks every 80 ms: it wakes up after the shutdown has finished
		vb := rng.Intn(sp.NumVB)
		sp.Steps = append(sp.Steps, Step{Op: "persistbelow", VB: vb, N: 1}, Step{Op: "waitrounds", VB: vb, N: 2}, Step{Op: "append", VB: vb, Items: []ItemSpec{{K: "m", Key: []byte("passes-1"), Val: []byte("{}")}, {K: "m", Key: []byte("waits-2"), Val: []byte("{}")}}},
			Step{Op: "persistbelow", VB: vb, Sel: "high-1"}, Step{Op: "waitrounds", VB: vb, N: 2}, Step{Op: "sleep", Ms: 120})
	case "mid-traffic":
		for k := 0; k < 6; k++ {
			sp.Steps = append(sp.Steps, app())
		}
	case "consumer-blocked":
		sp.Steps = append(sp.Steps, Step{Op: "holdcons"}, app(), app(), Step{Op: "waitblocked", N: 1}, Step{Op: "closeasync"}, Step{Op: "sleep", Ms: 40}, Step{Op: "releasecons"})
	case "save-held":
		sp.Backend = "mem"
		sp.Steps = append(sp.Steps, Step{Op: "holdsave"}, app(), Step{Op: "barrier"}, Step{Op: "ack", Sel: "all"}, Step{Op: "commitasync"}, Step{Op: "waitsave"}, Step{Op: "closeasync"}, Step{Op: "sleep", Ms: 40}, Step{Op: "releasesave"})
	case "save-failing":
		sp.Backend = "mem"
		for i := 1; i < 400; i++ {
			sp.FailSaves = append(sp.FailSaves, i)
		}
		sp.Steps = append(sp.Steps, app(), Step{Op: "barrier"}, Step{Op: "ack", Sel: "all"})
	case "signal-after-close":
		// Close() is followed by a termination signal (the orchestrator's SIGTERM, a second Ctrl-C) while the shutdown is under way
		sp.Backend = "mem"
		sp.Steps = append(sp.Steps, Step{Op: "holdsave"}, app(), Step{Op: "barrier"}, Step{Op: "ack", Sel: "all"}, Step{Op: "commitasync"}, Step{Op: "waitsave"}, Step{Op: "closeasync"}, Step{Op: "sleep", Ms: 30},
			Step{Op: "sigterm"}, Step{Op: "sleep", Ms: 30}, Step{Op: "releasesave"})
	case "signal-only":
		// the shutdown is requested by SIGTERM alone
		sp.Steps = append(sp.Steps, app(), Step{Op: "barrier"}, Step{Op: "ack", Sel: "all"}, Step{Op: "sigterm"})
	case "close-during-reopen-retry":
		// a vBucket ended with a recoverable status and its re-open is being refused (the library retries once a second)
		// when Close() arrives: the retries stop
		vb := rng.Intn(sp.NumVB)
		sp.ReqFail = map[int][2]int{vb: {2, 0x24}}
		sp.ReqFailFrom = true
		sp.Steps = append(sp.Steps, Step{Op: "end", VB: vb, St: transientStatus[rng.Intn(4)]}, Step{Op: "waitreopen", VB: vb, N: 2}, Step{Op: "sleep", Ms: 100})
	case "end-during-close":
		// the server ends a vBucket stream with a recoverable status (state changed, too slow, ...) while Close() is running
		// (held inside BeforeStreamStop): the shutdown must not re-open it
		vb := rng.Intn(sp.NumVB)
		sp.Steps = append(sp.Steps, Step{Op: "holdeh", Sel: "BSS"}, Step{Op: "closeasync"}, Step{Op: "waitheld", Sel: "BSS"}, Step{Op: "end", VB: vb, St: transientStatus[rng.Intn(4)]}, Step{Op: "sleep", Ms: 60}, Step{Op: "releaseeh"})
	case "notify-during-close":
		// a membership change is announced (PUT /membership/info) while Close() is closing the streams: the client has left
		// the group's business, no rebalance may start
		sp.Membership = "dynamic"
		sp.API = true
		h := []string{"BSS", "ASS"}[rng.Intn(2)]
		sp.Steps = append(sp.Steps, Step{Op: "holdeh", Sel: h}, Step{Op: "closeasync"}, Step{Op: "waitheld", Sel: h},
			Step{Op: "notify", Sel: "put", N: 1, VB: 2, Ms: 1}, Step{Op: "sleep", Ms: 80}, Step{Op: "releaseeh"})
	case "close-at-once":
		// Close() right after the client signalled readiness, while the rollback mitigation is still collecting the
		// failover logs it starts from (the node answers them slowly)
		sp.RollbackMitigation = true
		sp.FailoverLogDelayMs = 300
		sp.Steps = nil
	case "close-during-reconfigure":
		// the cluster publishes a newer map; the rollback mitigation has stopped its observer and is collecting the failover
		// logs for the next one (answered slowly) when Close() arrives
		sp.RollbackMitigation = true
		sp.FailoverLogDelayMs = 300
		sp.LogDelayMs = map[string]int{"new cluster config received, groupId = 2": 1}
		sp.Steps = append(sp.Steps, Step{Op: "bumpconfig", Sel: "nowait"}, Step{Op: "waitlog", Sel: "new cluster config received, groupId = 2"})
	case "map-change-at-close":
		// the cluster publishes a newer map revision right before Close(); Close() stops the rollback mitigation and is then held
		// (inside AfterStreamStop, connections still open) longer than the mitigation's map-watch interval: whatever the
		// mitigation does with the newer map, it polls nothing afterwards and nothing crashes when the connections go
		sp.RollbackMitigation = true
		sp.Nodes, sp.Replicas = 2, 1
		// (the client learns the new revision at its own pace, within about 2.5 s; the mitigation looks every 2 s: the Close()
		// is placed at a seed-chosen point of that window)
		sp.RMIntervalMs, sp.RMWatchMs = 20, 2000
		sp.Steps = append(sp.Steps, Step{Op: "bumpconfig", Sel: "nowait"}, Step{Op: "sleep", Ms: 200 + rng.Intn(2300)}, Step{Op: "holdeh", Sel: "ASS"}, Step{Op: "closeasync"}, Step{Op: "waitheld", Sel: "ASS"}, Step{Op: "sleep", Ms: 2300}, Step{Op: "releaseeh"})
	case "reb-in-BSS":
		sp.Steps = append(sp.Steps, Step{Op: "holdeh", Sel: "BSS"}, reb, Step{Op: "waitheld", Sel: "BSS"}, Step{Op: "closeasync"}, Step{Op: "sleep", Ms: 30}, Step{Op: "releaseeh"})
	case "reb-after-ASS":
		sp.Steps = append(sp.Steps, Step{Op: "holdeh", Sel: "ASS"}, reb, Step{Op: "waitheld", Sel: "ASS"}, Step{Op: "closeasync"}, Step{Op: "sleep", Ms: 30}, Step{Op: "releaseeh"})
	case "reb-in-delay":
		sp.Steps = append(sp.Steps, reb, Step{Op: "waiteh", Sel: "ARS"}, Step{Op: "sleep", Ms: 30})
	case "reb-in-BSStart":
		sp.Steps = append(sp.Steps, Step{Op: "holdeh", Sel: "BRE"}, reb, Step{Op: "waitheld", Sel: "BRE"}, Step{Op: "closeasync"}, Step{Op: "sleep", Ms: 30}, Step{Op: "releaseeh"})
	case "reb-after-ARE":
		sp.Steps = append(sp.Steps, reb, Step{Op: "waiteh", Sel: "ARE"})
	}
	sp.Steps = append(sp.Steps, Step{Op: "waitclose", Ms: 20000})
	if state == "map-change-at-close" {
		sp.LingerMs = 800
	}
	if state == "close-during-reopen-retry" {
		// the library's retry loop runs for up to five seconds: whatever is still alive after Close() shows in that time
		sp.LingerMs = 5200
	}
	return sp
}

// inRebalanceWindow: states between BeforeRebalanceStart and AfterRebalanceEnd. On the pinned tree Close()
// there hangs, crashes or loses settled positions depending on configuration (one known finding per
// state, DESIGN §10); every failure shape in such a state carries the same finding key.
func inRebalanceWindow(state string) bool {
	switch state {
	case "reb-in-BSS", "reb-after-ASS", "reb-in-delay", "reb-in-BSStart":
		return true
	}
	return false
}

func OracleShutdown(tr *Trace, state string) []Finding {
	fs := oracleShutdown(tr, state)
	if inRebalanceWindow(state) {
		for i := range fs {
			fs[i].Detail = "[" + fs[i].Key + "] " + fs[i].Detail
			fs[i].Key = "C13/close-inside-rebalance-window/" + state
		}
	}
	return fs
}

func oracleShutdown(tr *Trace, state string) []Finding {
	var fs []Finding
	p := tr.Post
	if p == nil {
		return nil
	}
	if !p.Returned {
		if len(tr.CloseHangStacks) > 0 {
			shape := "other"
			j := strings.Join(tr.CloseHangStacks, "\n")
			switch {
			case strings.Contains(j, "rollbackMitigation).Stop"):
				shape = "second-rollback-mitigation-stop"
			case strings.Contains(j, "finishStreamWithCloseCh") || strings.Contains(j, "(*stream).Close"):
				shape = "stream-close"
			case strings.Contains(j, "healthCheck).Stop"):
				shape = "healthcheck-stop"
			case strings.Contains(j, "checkpoint).Save"):
				shape = "save"
			}
			fs = append(fs, Finding{"C13", "hang", "C13/hang/" + state + "/" + shape, fmt.Sprintf("Close() in state %q: Start() did not return within 30 s; library goroutines are parked with identical stacks 2 s apart:\n%s", state, trunc(j, 1800))})
		}
		return fs
	}
	// health check: once Close() was called inside a retry wait no retry ping may follow (a retry cannot
	// start earlier than 1 s after the failed ping; a ping that late after the call is a retry)
	if state == "hc-retrying" {
		var closeW int64
		for _, r := range tr.Log {
			if r.K == "ctl.close.call" {
				closeW = r.W
			}
		}
		late := 0
		for _, r := range tr.Log {
			if r.K == "sim.pingfail" && closeW != 0 && r.W-closeW >= int64(950*time.Millisecond) {
				late++
			}
		}
		if late > 0 {
			fs = append(fs, Finding{"C13", "healthcheck-not-stopped", "C13/healthcheck-retrying-after-close", fmt.Sprintf("Close() arrived inside a failing health-check round: %d retry ping(s) were still issued >= 0.95 s after the Close() call", late)})
		}
	}
	// nothing is (re)started once Close() was called: no stream request, no rebalance
	if state == "end-during-close" || state == "notify-during-close" || state == "close-during-reopen-retry" {
		var closeT int64
		for _, r := range tr.Log {
			if r.K == "ctl.close.call" && closeT == 0 {
				closeT = r.T
			}
		}
		for _, r := range tr.Log {
			if closeT == 0 || r.T < closeT {
				continue
			}
			if r.K == "sim.rx" && r.Op == cbsim.OpDcpStreamReq {
				fs = append(fs, Finding{"C13", "restart-after-close", "C13/stream-request-after-close", fmt.Sprintf("state %q: a stream request for vb %d reached the cluster (tick %d) after Close() had been called (tick %d)", state, r.VB, r.T, closeT)})
				break
			}
			if r.K == "eh.BRS" {
				fs = append(fs, Finding{"C13", "restart-after-close", "C13/rebalance-after-close", fmt.Sprintf("state %q: a rebalance started (BeforeRebalanceStart at tick %d) after Close() had been called (tick %d)", state, r.T, closeT)})
				break
			}
		}
	}
	if p.DeliverAfter > 0 {
		fs = append(fs, Finding{"C13", "deliver-after-close", "C13/deliver-after-close", fmt.Sprintf("%d event(s) handed to the consumer after Start() returned", p.DeliverAfter)})
	}
	if len(p.RxAfter) > 0 {
		kinds := map[string]bool{}
		for _, r := range p.RxAfter {
			kinds[strings.SplitN(r, " ", 2)[0]] = true
		}
		var ks []string
		for k := range kinds {
			ks = append(ks, k)
		}
		fs = append(fs, Finding{"C13", "wire-not-silent", "C13/wire-not-silent", fmt.Sprintf("state %q: %d request(s) reached the cluster later than the grace period after Start() returned (%v), e.g. %s", state, len(p.RxAfter), ks, p.RxAfter[0])})
	}
	if p.OpenConns > 0 {
		fs = append(fs, Finding{"C13", "conn-open", "C13/connections-left-open", fmt.Sprintf("state %q: %d connection(s) to the cluster still open after shutdown", state, p.OpenConns)})
	}
	// durability with automatic checkpointing: everything settled before the Close() call is stored
	if tr.Spec.Auto && len(tr.Spec.FailSaves) == 0 {
		ck := &StoreCheck{TCommitCall: p.TCloseCall, TCommitRet: p.TStartRet, Store: p.Store, NoIdle: true}
		t2 := *tr
		t2.Checks = []*StoreCheck{ck}
		// vBuckets outside the range in effect at close time are not this member's business
		for _, f := range OracleDurable(&t2, "C13") {
			fs = append(fs, f)
		}
	}
	return fs
}

func init() {
	drv.Register(&drv.Prop{
		ID: "C13", Level: "fault_enumeration", Parallel: 12, Batch: 1, MinConclusive: 30,
		Rule: "each case is one child process: a session is brought into a named lifecycle state (idle, mid-traffic, consumer blocked inside ConsumeEvent, store call held / failing, and - by holding lifecycle callbacks - inside BeforeStreamStop, after AfterStreamStop, inside the rebalance delay, inside the reopen, right after AfterRebalanceEnd), " +
			"Close() is issued there, under configurations {rollback mitigation, health check, API, auto/manual checkpoint, couchbase/file/custom metadata, static/dynamic/couchbase membership}. " +
			"Oracle: Start() returns (hang rule: 30 s watchdog + two identical parked-stack dumps 2 s apart), the process survives, with auto checkpointing the store equals the positions settled before the Close() call, no delivery after Start() returned, " +
			"no request reaches the cluster later than the grace period, no connection stays open. Non-trivial: Close placed in a non-idle state; distinct = distinct (state, configuration)",
		Assumptions: []string{"completion of Close() = return of Start() (DESIGN §3 rule 2)", "a consumer blocked in ConsumeEvent is released 40 ms after the Close() call (a consumer that never returns blocks gocbcore's read loop and is outside the property)"},
		Gen: func(seed int64, tier string) []drv.Scenario {
			rng := rand.New(rand.NewSource(seed))
			var out []drv.Scenario
			reps := 1
			if tier == "thorough" {
				reps = 10
			}
			for r := 0; r < reps; r++ {
				for _, st := range c13States {
					ncfg := 5
					for k := 0; k < ncfg; k++ {
						c := c13Cfg{RM: rng.Intn(2) == 0, HC: rng.Intn(2) == 0, API: rng.Intn(2) == 0, Auto: rng.Intn(3) != 0, Backend: []string{"cb", "file", "mem"}[rng.Intn(3)], Membership: []string{"", "", "dynamic", "couchbase"}[rng.Intn(4)]}
						if k == 0 {
							c = c13Cfg{RM: true, HC: true, API: true, Auto: true, Backend: "cb"}
						}
						if k == 1 {
							c = c13Cfg{Auto: true, Backend: "mem"}
						}
						if c.Membership == "couchbase" {
							c.Backend = "cb"
						}
						sp := c13Spec(rng, st, c)
						out = append(out, drv.Scenario{Kind: st, Seed: seed, Params: mustJSON(sp), TimeoutS: 120, Solo: true})
					}
				}
			}
			return out
		},
		Run: func(sc drv.Scenario) drv.Result {
			var sp SessSpec
			if err := json.Unmarshal(sc.Params, &sp); err != nil {
				return drv.Result{Verdict: drv.Inconclusive, Detail: err.Error()}
			}
			drv.NoteFlush("state %s", sc.Kind)
			tr := RunSession(&sp)
			if tr.StartErr != "" {
				return drv.Result{Verdict: drv.Inconclusive, Detail: tr.StartErr}
			}
			fs := OracleShutdown(tr, sc.Kind)
			cfgs := fmt.Sprintf("rm=%v hc=%v api=%v auto=%v backend=%s membership=%q", sp.RollbackMitigation, sp.HealthCheck, sp.API, sp.Auto, sp.Backend, sp.Membership)
			sample := map[string]any{"state": sc.Kind, "config": cfgs}
			if tr.Post != nil {
				sample["start_returned"] = tr.Post.Returned
				sample["requests_after_grace"] = len(tr.Post.RxAfter)
				sample["open_connections"] = tr.Post.OpenConns
				sample["store_at_exit"] = tr.Post.Store
			}
			r := sessionResult("C13", tr, fs, sc.Kind != "idle", sample)
			if tr.Post == nil || (!tr.Post.Returned && len(tr.CloseHangStacks) == 0) {
				r.Verdict, r.Detail = drv.Inconclusive, "close neither returned nor confirmed hung"
			}
			r.TraceHash = drv.Hash(sc.Kind, cfgs)
			return r
		},
		OnDeath: func(sc drv.Scenario, out drv.ChildOutcome) drv.Result {
			if (sc.Kind == "signal-after-close" || sc.Kind == "signal-only") && strings.Contains(out.Stderr, "panic:") {
				return drv.Result{Verdict: drv.Violated, Clause: "crash", FindingKey: "C13/crash/" + sc.Kind + "/signal", Nontrivial: true, TraceHash: drv.Hash("death", sc.Kind, "signal"),
					Detail: fmt.Sprintf("a termination signal in state %q crashed the process: %s", sc.Kind, drv.PanicLine(out.Stderr)), Witness: out.Stderr}
			}
			if drv.IsLibraryPanic(out.Stderr) {
				shape := "other"
				switch {
				case strings.Contains(out.Stderr, "(*stream).Close"):
					shape = "stream-close-nil-observers"
				case strings.Contains(out.Stderr, "healthCheck"):
					shape = "healthcheck"
				}
				key := "C13/crash/" + sc.Kind + "/" + shape
				if inRebalanceWindow(sc.Kind) {
					key = "C13/close-inside-rebalance-window/" + sc.Kind
				}
				return drv.Result{Verdict: drv.Violated, Clause: "crash", FindingKey: key, Nontrivial: true, TraceHash: drv.Hash("death", sc.Kind, shape),
					Detail: fmt.Sprintf("Close() in state %q crashed the process: %s", sc.Kind, drv.PanicLine(out.Stderr)), Witness: out.Stderr}
			}
			return drv.Result{Verdict: drv.Inconclusive, Detail: "child ended: " + drv.PanicLine(out.Stderr)}
		},
	})
}
