package props

import (
	"encoding/json"
	"errors"
	"fmt"
	"math/rand"
	"strings"
	"sync"
	"sync/atomic"
	"time"

	"github.com/Trendyol/go-dcp/config"
	"github.com/Trendyol/go-dcp/couchbase"
	"github.com/Trendyol/go-dcp/models"

	"verif/harness/drv"
	"verif/harness/hx"
)

// C19 — health check fail-stop after five consecutive failures in a round, stoppable.
// The real couchbase.NewHealthCheck runs against a scripted couchbase.Client whose Ping follows a
// success/failure script. Process death is observed by the parent (expectation children).

type c19Params struct {
	Script         string   `json:"script,omitempty"`  // S/F per ping, then S forever
	StopAt         int      `json:"stop_at,omitempty"` // call Stop() after this many pings returned (0 = never)
	Calls          []string `json:"calls,omitempty"`   // permutation scenario: sequence of Start/Stop calls
	IntervalMs     int      `json:"interval_ms,omitempty"`
	FailWithResult bool     `json:"fail_with_result,omitempty"` // a failing ping returns a result next to the error, as the real client does when only one service answers
	SlowFailMs     int      `json:"slow_fail_ms,omitempty"`     // a failing ping takes this long to fail (a ping that runs into its timeout)
}

type pingClient struct {
	couchbase.Client
	mu       sync.Mutex
	script   string
	n        int
	inflight int32
	maxConc  int32
	after    chan int // receives ping index after each ping returned
	delay    time.Duration
	slowFail time.Duration
	failRes  bool
	times    []time.Time
}

func (p *pingClient) Ping() (*models.PingResult, error) {
	c := atomic.AddInt32(&p.inflight, 1)
	for {
		m := atomic.LoadInt32(&p.maxConc)
		if c <= m || atomic.CompareAndSwapInt32(&p.maxConc, m, c) {
			break
		}
	}
	p.mu.Lock()
	p.n++
	n := p.n
	ok := true
	if n <= len(p.script) {
		ok = p.script[n-1] == 'S'
	}
	p.times = append(p.times, time.Now())
	p.mu.Unlock()
	drv.NoteFlush("ping %d %v", n, ok)
	if p.delay > 0 {
		time.Sleep(p.delay)
	}
	if !ok && p.slowFail > 0 {
		time.Sleep(p.slowFail)
	}
	atomic.AddInt32(&p.inflight, -1)
	if p.after != nil {
		select {
		case p.after <- n:
		default:
		}
	}
	if ok {
		return &models.PingResult{MemdEndpoint: "m", MgmtEndpoint: "g"}, nil
	}
	if p.failRes {
		return &models.PingResult{MemdEndpoint: "m"}, errors.New("some services are not healthy")
	}
	return nil, errors.New("scripted ping failure")
}

func (p *pingClient) count() int { p.mu.Lock(); defer p.mu.Unlock(); return p.n }

func init() {
	drv.Register(&drv.Prop{
		ID: "C19", Level: "fault_enumeration", Exhaustive: true, Parallel: 16, Batch: 1, MinConclusive: 30,
		Rule: "round: all 32 success/failure patterns of one round, each in its own child process (the process must die exactly at the fifth consecutive failure and otherwise survive); " +
			"rounds: multi-round scripts in which failures accumulate across rounds without five in a row; stop: Stop() called in the retry wait after ping k (k=1..4) and at seed-chosen points; " +
			"calls: every sequence of Start/Stop calls up to length 4 that begins with Start. Non-trivial: script with at least one failure, or a Stop inside a retry wait, or a repeated call; distinct = distinct (script, stop point, call sequence)",
		Assumptions: []string{"the retry interval (1 s) and retry count are hard-coded in the library; a Stop issued 20 ms into a 1 s retry wait is 'in the middle of' the wait"},
		Gen: func(seed int64, tier string) []drv.Scenario {
			var out []drv.Scenario
			add := func(kind string, p c19Params, solo bool) {
				raw, _ := json.Marshal(p)
				out = append(out, drv.Scenario{Kind: kind, Seed: seed, Params: raw, TimeoutS: 60, Solo: solo})
			}
			for m := 0; m < 32; m++ {
				s := ""
				for b := 0; b < 5; b++ {
					if m&(1<<uint(b)) != 0 {
						s += "F"
					} else {
						s += "S"
					}
				}
				add("round", c19Params{Script: s}, true)
			}
			rng := rand.New(rand.NewSource(seed))
			multi := []string{"FSFFSFFS", "FFFFSFFFFS", "FFSFFFS", "FFFSFFSFFFFS", "FFFFSFFFFF", "SFFFFSF", "FSFSFSFSFSFS", "FFFFSSFFFFF"}
			n := 3
			if tier == "thorough" {
				n = 20
			}
			for i := 0; i < n; i++ {
				s := ""
				for len(s) < 8+rng.Intn(5) {
					k := rng.Intn(5)
					s += strings.Repeat("F", k) + "S"
				}
				multi = append(multi, s)
			}
			for _, s := range multi {
				add("rounds", c19Params{Script: s}, true)
			}
			for k := 1; k <= 4; k++ {
				add("stop", c19Params{Script: "FFFFF", StopAt: k}, true)
				add("stop", c19Params{Script: "SF" + strings.Repeat("F", 4), StopAt: 1 + k}, true)
			}
			add("stop", c19Params{Script: "SSS", StopAt: 2}, true)
			// a production-sized interval (longer than a whole round): Stop() after a round that had to retry returns at once,
			// it does not sit until the next scheduled check
			add("stop", c19Params{Script: "FS", StopAt: 2, IntervalMs: 20000}, true)
			// failing pings that take longer than the retry interval to fail (time-outs): five of them still end the process,
			// four and a success do not
			add("round", c19Params{Script: "FFFFF", SlowFailMs: 1050}, true)
			add("round", c19Params{Script: "FFFFS", SlowFailMs: 1050}, true)
			add("round", c19Params{Script: "SFFFFF", SlowFailMs: 1100}, true)
			// failing pings that come with a result (client.Ping returns its result next to "some services are not healthy")
			add("round", c19Params{Script: "FFFFF", FailWithResult: true}, true)
			add("round", c19Params{Script: "FFFFS", FailWithResult: true}, true)
			add("round", c19Params{Script: "SFSFFFFF", FailWithResult: true}, true)
			for k := 0; k < 2; k++ {
				raw, _ := json.Marshal(c19Params{IntervalMs: []int{5, 20}[k]})
				out = append(out, drv.Scenario{Kind: "stop-slow-ping", Seed: seed, Params: raw, TimeoutS: 240, Solo: true})
			}
			// two Stop() calls racing each other while a ping is in flight and the next tick is due: neither may return
			// before the checker has stopped
			for k := 0; k < 2; k++ {
				raw, _ := json.Marshal(c19Params{IntervalMs: []int{5, 20}[k]})
				out = append(out, drv.Scenario{Kind: "stop-twice", Seed: seed, Params: raw, TimeoutS: 120, Solo: true})
			}
			// Stop() right after Start(), before the check goroutine has run at all (one processor): nothing may be pinged afterwards
			for k := 0; k < 3; k++ {
				raw, _ := json.Marshal(c19Params{Script: "SSSS", IntervalMs: []int{1, 5, 20}[k]})
				out = append(out, drv.Scenario{Kind: "stop-at-once", Seed: seed, Params: raw, TimeoutS: 60, Solo: true, GoMaxProcs: 1})
			}
			// call sequences
			var seqs [][]string
			var rec func(cur []string)
			rec = func(cur []string) {
				if len(cur) > 0 {
					seqs = append(seqs, append([]string{}, cur...))
				}
				if len(cur) == 4 {
					return
				}
				rec(append(cur, "Start"))
				rec(append(cur, "Stop"))
			}
			rec(nil)
			for _, s := range seqs {
				// The property quantifies over Stop() arriving at a running checker and over repeated
				// Start / repeated Stop; a Stop() issued before the first Start() is outside it (on the
				// pinned tree it spends the stop-once and a later Stop() is then a no-op - recorded in
				// DESIGN.md as an observation, not claimed as a violation).
				if s[0] != "Start" {
					continue
				}
				add("calls", c19Params{Calls: s, IntervalMs: 15}, true)
			}
			return out
		},
		Run: runC19,
		OnDeath: func(sc drv.Scenario, out drv.ChildOutcome) drv.Result {
			var p c19Params
			_ = json.Unmarshal(sc.Params, &p)
			pings := 0
			for _, n := range out.Notes {
				if strings.HasPrefix(n, "ping ") {
					pings++
				}
			}
			if out.TimedOut || !drv.IsLibraryPanic(out.Stderr) {
				return drv.Result{Verdict: drv.Inconclusive, Detail: "child ended without a Go panic: " + drv.PanicLine(out.Stderr)}
			}
			idx := strings.Index(p.Script, "FFFFF")
			base := drv.Result{Nontrivial: true, TraceHash: drv.Hash(sc.Kind, p.Script, fmt.Sprint(p.StopAt), strings.Join(p.Calls, ",")),
				Sample: map[string]any{"script": p.Script, "stop_at": p.StopAt, "calls": p.Calls, "pings_before_death": pings, "death": drv.PanicLine(out.Stderr)}, Checks: 1,
				Events: map[string]int{"pings": pings, "process_deaths": 1}}
			stopped := false
			for _, n := range out.Notes {
				if strings.HasPrefix(n, "stop.ret") {
					stopped = true
				}
			}
			if sc.Kind == "stop" || sc.Kind == "calls" || sc.Kind == "stop-at-once" || sc.Kind == "stop-slow-ping" || sc.Kind == "stop-twice" {
				base.Verdict = drv.Violated
				base.Clause = "stop-crash"
				base.FindingKey = "C19/stop-crash"
				base.Detail = fmt.Sprintf("process died in a Start/Stop scenario (script %q stop_at=%d calls=%v stopped=%v): %s", p.Script, p.StopAt, p.Calls, stopped, drv.PanicLine(out.Stderr))
				return base
			}
			if idx < 0 {
				base.Verdict = drv.Violated
				base.Clause = "false-stop"
				base.FindingKey = "C19/false-stop"
				base.Detail = fmt.Sprintf("script %q has no five consecutive failures but the process died after %d pings: %s", p.Script, pings, drv.PanicLine(out.Stderr))
				return base
			}
			if pings != idx+5 {
				base.Verdict = drv.Violated
				base.Clause = "stop-point"
				base.FindingKey = "C19/stop-point"
				base.Detail = fmt.Sprintf("script %q: died after %d pings, the fifth consecutive failure is ping %d", p.Script, pings, idx+5)
				return base
			}
			base.Verdict = drv.Held
			return base
		},
	})
}

func runC19(sc drv.Scenario) drv.Result {
	hx.QuietLogger()
	var p c19Params
	_ = json.Unmarshal(sc.Params, &p)
	iv := p.IntervalMs
	if iv == 0 {
		iv = 20
	}
	cfg := &config.HealthCheck{Interval: time.Duration(iv) * time.Millisecond, Timeout: time.Second}
	pc := &pingClient{script: p.Script, after: make(chan int, 64), slowFail: time.Duration(p.SlowFailMs) * time.Millisecond, failRes: p.FailWithResult}
	res := drv.Result{Verdict: drv.Held, Events: map[string]int{}, Checks: 1, Nontrivial: strings.Contains(p.Script, "F") || p.StopAt > 0 || len(p.Calls) > 1,
		TraceHash: drv.Hash(sc.Kind, p.Script, fmt.Sprint(p.StopAt), strings.Join(p.Calls, ","))}
	viol := func(clause, detail string) drv.Result {
		r := res
		r.Verdict, r.Clause, r.FindingKey, r.Detail = drv.Violated, clause, "C19/"+clause, detail
		return r
	}
	callWithBound := func(name string, f func()) bool {
		done := make(chan struct{})
		go func() { f(); close(done) }()
		select {
		case <-done:
			return true
		case <-time.After(15 * time.Second):
			return false
		}
	}
	switch sc.Kind {
	case "round", "rounds":
		h := couchbase.NewHealthCheck(cfg, pc)
		h.Start()
		// wait until the script is exhausted plus three further successful pings (the process dies on its own when it must)
		need := len(p.Script) + 3
		if !hx.WaitFor(40*time.Second, func() bool { return pc.count() >= need }) {
			return drv.Result{Verdict: drv.Inconclusive, Detail: fmt.Sprintf("only %d of %d pings observed", pc.count(), need)}
		}
		if !callWithBound("Stop", h.Stop) {
			return viol("stop-hang", "Stop() did not return within 15 s while idle\n"+strings.Join(hx.LibStacks(), "\n"))
		}
		if strings.Contains(p.Script, "FFFFF") {
			return viol("missed-stop", fmt.Sprintf("script %q contains five consecutive failures but the process survived %d pings", p.Script, pc.count()))
		}
		res.Events["pings"] = pc.count()
		res.Sample = map[string]any{"script": p.Script, "pings": pc.count(), "survived": true}
	case "stop-slow-ping":
		// Stop() arrives while a ping is in flight that takes longer than the configured ping timeout; a tick is pending behind
		// it. Several trials: whether the loop would pick the pending tick after the cancellation is a coin flip.
		trials := 6
		for tnum := 0; tnum < trials; tnum++ {
			pcs := &pingClient{script: "SSSSSSSS", after: make(chan int, 64), delay: 1500 * time.Millisecond}
			h := couchbase.NewHealthCheck(cfg, pcs)
			h.Start()
			if !hx.WaitFor(5*time.Second, func() bool { return atomic.LoadInt32(&pcs.inflight) == 1 }) {
				return drv.Result{Verdict: drv.Inconclusive, Detail: "no ping in flight"}
			}
			time.Sleep(50 * time.Millisecond)
			// after the cancellation the run loop may pick the pending tick instead (Go's select is fair) and ping once more, 1.5 s
			// each time: the wait is geometric, so the bound is generous (40 extra pings have probability 2^-40)
			stopped := make(chan struct{})
			go func() { h.Stop(); close(stopped) }()
			select {
			case <-stopped:
			case <-time.After(75 * time.Second):
				return viol("stop-hang", "Stop() during a slow ping did not return within 75 s")
			}
			n := pcs.count()
			time.Sleep(3300 * time.Millisecond)
			if pcs.count() != n {
				return viol("ping-after-stop", fmt.Sprintf("trial %d: Stop() arrived during a ping that took 1.5 s (ping timeout %v): %d ping(s) were issued after Stop() had returned", tnum, cfg.Timeout, pcs.count()-n))
			}
			res.Checks++
		}
		res.Nontrivial = true
		res.Events["trials"] = trials
		res.Sample = map[string]any{"calls": "Start, Stop during a 1.5 s ping", "trials": trials, "pings_after_stop": 0}
	case "stop-twice":
		trials := 12
		for tnum := 0; tnum < trials; tnum++ {
			pcs := &pingClient{script: "SSSSSSSS", after: make(chan int, 64), delay: 300 * time.Millisecond}
			h := couchbase.NewHealthCheck(cfg, pcs)
			h.Start()
			if !hx.WaitFor(5*time.Second, func() bool { return atomic.LoadInt32(&pcs.inflight) == 1 }) {
				return drv.Result{Verdict: drv.Inconclusive, Detail: "no ping in flight"}
			}
			time.Sleep(3 * cfg.Interval)
			var first int32 = -1
			var wg sync.WaitGroup
			stuck := make(chan struct{})
			for g := 0; g < 2; g++ {
				wg.Add(1)
				go func() {
					defer wg.Done()
					h.Stop()
					// pings started when the first of the two calls returned
					atomic.CompareAndSwapInt32(&first, -1, int32(pcs.count()))
				}()
			}
			go func() { wg.Wait(); close(stuck) }()
			select {
			case <-stuck:
			case <-time.After(15 * time.Second):
				return viol("stop-hang", "two concurrent Stop() calls during a ping did not both return within 15 s\n"+strings.Join(hx.LibStacks(), "\n"))
			}
			time.Sleep(700 * time.Millisecond)
			if n := int32(pcs.count()); n != atomic.LoadInt32(&first) {
				return viol("ping-after-stop", fmt.Sprintf("trial %d: two concurrent Stop() calls during a 300 ms ping: %d ping(s) were issued after the first of them had returned", tnum, n-atomic.LoadInt32(&first)))
			}
			res.Checks++
		}
		res.Nontrivial = true
		res.Events["trials"] = trials
		res.Sample = map[string]any{"calls": "Start, Stop || Stop during a 300 ms ping", "trials": trials, "pings_after_stop": 0}
	case "stop-at-once":
		h := couchbase.NewHealthCheck(cfg, pc)
		h.Start()
		if !callWithBound("Stop", h.Stop) {
			return viol("stop-hang", "Stop() right after Start() did not return within 15 s\n"+strings.Join(hx.LibStacks(), "\n"))
		}
		drv.NoteFlush("stop.ret")
		n := pc.count()
		time.Sleep(400 * time.Millisecond)
		if pc.count() != n {
			return viol("ping-after-stop", fmt.Sprintf("Stop() right after Start(): %d ping(s) issued after Stop() had returned", pc.count()-n))
		}
		res.Nontrivial = true
		res.Events["pings"] = n
		res.Sample = map[string]any{"calls": "Start, Stop at once (GOMAXPROCS=1)", "pings_before_stop_returned": n, "pings_after_stop": 0}
	case "stop":
		h := couchbase.NewHealthCheck(cfg, pc)
		h.Start()
		got := 0
		dl := time.After(30 * time.Second)
		for got < p.StopAt {
			select {
			case got = <-pc.after:
			case <-dl:
				return drv.Result{Verdict: drv.Inconclusive, Detail: "pings did not arrive"}
			}
		}
		time.Sleep(20 * time.Millisecond) // now inside the retry wait (1 s) or idle between ticks
		before := pc.count()
		drv.NoteFlush("stop.call after %d pings", before)
		t0 := time.Now()
		if !callWithBound("Stop", h.Stop) {
			return viol("stop-hang", fmt.Sprintf("Stop() after ping %d of %q did not return within 15 s\n%s", p.StopAt, p.Script, strings.Join(hx.LibStacks(), "\n")))
		}
		drv.NoteFlush("stop.ret")
		during := pc.count() - before
		el := time.Since(t0)
		inRetry := p.StopAt <= len(p.Script) && p.Script[p.StopAt-1] == 'F'
		if inRetry && during > 0 {
			// After cancellation the run loop may legitimately pick an already pending tick once and issue
			// the first ping of a new round (Go's select is fair between ready cases); that ping starts at
			// once. A *retry* ping cannot start earlier than 1 s after the failed ping (timers never fire
			// early), i.e. >= 0.98 s after the Stop call. More than one ping, or a ping that late, means
			// Stop() sat through a retry wait.
			pc.mu.Lock()
			first := pc.times[before].Sub(t0)
			pc.mu.Unlock()
			if during >= 2 || first >= 980*time.Millisecond {
				return viol("stop-not-prompt", fmt.Sprintf("Stop() called inside the retry wait after failed ping %d: %d further ping(s) were issued before it returned (first %.2fs after the call, Stop took %.2fs)", p.StopAt, during, first.Seconds(), el.Seconds()))
			}
			if first >= 500*time.Millisecond {
				return drv.Result{Verdict: drv.Inconclusive, Detail: fmt.Sprintf("one ping %.2fs after Stop call: cannot tell a stalled new-round ping from a retry", first.Seconds())}
			}
		}
		afterRet := pc.count()
		time.Sleep(1300 * time.Millisecond)
		if pc.count() != afterRet {
			return viol("ping-after-stop", fmt.Sprintf("%d ping(s) issued after Stop() had returned", pc.count()-afterRet))
		}
		res.Events["pings"] = pc.count()
		res.Sample = map[string]any{"script": p.Script, "stop_after_ping": p.StopAt, "pings_during_stop": during, "stop_seconds": el.Seconds(), "pings_after_stop": 0}
	case "calls":
		pc.delay = 4 * time.Millisecond
		h := couchbase.NewHealthCheck(cfg, pc)
		started := false
		for i, c := range p.Calls {
			ok := true
			if c == "Start" {
				ok = callWithBound("Start", h.Start)
				started = true
			} else {
				ok = callWithBound("Stop", h.Stop)
			}
			if !ok {
				return viol("call-hang", fmt.Sprintf("%s (call %d of %v) did not return within 15 s\n%s", c, i+1, p.Calls, strings.Join(hx.LibStacks(), "\n")))
			}
			time.Sleep(time.Duration(3*iv) * time.Millisecond)
		}
		_ = started
		if !callWithBound("Stop", h.Stop) {
			return viol("call-hang", fmt.Sprintf("final Stop after %v did not return within 15 s\n%s", p.Calls, strings.Join(hx.LibStacks(), "\n")))
		}
		drv.NoteFlush("stop.ret")
		n := pc.count()
		time.Sleep(time.Duration(8*iv) * time.Millisecond)
		if pc.count() != n {
			return viol("ping-after-stop", fmt.Sprintf("calls %v: %d ping(s) after the final Stop() returned (a second loop is still running)", p.Calls, pc.count()-n))
		}
		if atomic.LoadInt32(&pc.maxConc) > 1 {
			return viol("double-loop", fmt.Sprintf("calls %v: %d pings in flight at once (more than one check loop)", p.Calls, pc.maxConc))
		}
		res.Events["pings"] = n
		res.Sample = map[string]any{"calls": p.Calls, "pings": n, "max_concurrent_pings": pc.maxConc}
	}
	return res
}
