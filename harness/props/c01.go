package props

import (
	"encoding/json"
	"fmt"
	"math/rand"
	"os"
	"sort"
	"strings"
	"sync"
	"time"

	dcp "github.com/Trendyol/go-dcp"
	"github.com/Trendyol/go-dcp/models"

	"verif/harness/cbsim"
	"verif/harness/drv"
	"verif/harness/hx"
)

// C01 — the durable checkpoint never runs ahead of what the consumer settled; a restart from any
// crash point (any prefix of the store writes) resumes at or before the first unsettled event.

type storeWrite struct {
	T   int64
	VB  int
	Seq uint64
	Tup tuple
}

func storeWrites(tr *Trace) []storeWrite {
	var out []storeWrite
	for _, r := range tr.Log {
		switch r.K {
		case "md.write":
			out = append(out, storeWrite{r.T, r.VB, r.Seq, tuple{r.D, r.Seq, r.B, r.C}})
		case "sim.xattrwrite":
			if vb, t, ok := decodeXattrWrite(r.S); ok {
				out = append(out, storeWrite{r.T, vb, t.seq, t})
			}
		}
	}
	return out
}

// fileStateWrites: the file back end rewrites the whole file from the dump of every save, dirty or not. A write, for the
// purposes of "what does the store hold", is every entry of a completed save that differs from what the file held before
// (also entries of vBuckets the member does not own at that time, which the dump carries along).
func fileStateWrites(tr *Trace) []storeWrite {
	var out []storeWrite
	cur := map[int]tuple{}
	for vb, ps := range tr.Spec.PreStore {
		cur[vb] = tuple{ps[0], ps[1], ps[2], ps[3]}
	}
	ok := map[uint64]bool{}
	for _, r := range tr.Log {
		if r.K == "md.save.ret" && r.S == "" {
			ok[r.A] = true
		}
	}
	for _, r := range tr.Log {
		if r.K != "md.state" || !ok[r.A] {
			continue
		}
		t := tuple{r.D, r.Seq, r.B, r.C}
		if prev, has := cur[r.VB]; has && prev == t {
			continue
		}
		cur[r.VB] = t
		if t.seq == 0 {
			continue // an empty entry: "no checkpoint"
		}
		out = append(out, storeWrite{r.T, r.VB, r.Seq, t})
	}
	return out
}

// settledBefore: was some event of vb with seqno >= seq acknowledged (call tick < t) or absorbed
// (sent before t)? (DESIGN §3 rule 1: settled is cumulative per vBucket.)
type settleIndex struct {
	ackCall map[int][]struct {
		t   int64
		seq uint64
	}
	absorbed map[int][]struct {
		t   int64
		seq uint64
	}
	resume map[int][]struct {
		t   int64
		seq uint64
	}
}

func buildSettleIndex(tr *Trace) *settleIndex {
	ix := &settleIndex{ackCall: map[int][]struct {
		t   int64
		seq uint64
	}{}, absorbed: map[int][]struct {
		t   int64
		seq uint64
	}{}, resume: map[int][]struct {
		t   int64
		seq uint64
	}{}}
	for _, r := range tr.Log {
		if r.K == "cons.ack.call" {
			ix.ackCall[r.VB] = append(ix.ackCall[r.VB], struct {
				t   int64
				seq uint64
			}{r.T, r.Seq})
		}
	}
	for vb, segs := range tr.Segs {
		for _, sg := range segs {
			ix.resume[vb] = append(ix.resume[vb], struct {
				t   int64
				seq uint64
			}{sg.ReqT, sg.Start})
			for _, it := range sg.Items {
				if it.Kind == cbsim.KSystem || it.Kind == cbsim.KSeqnoAdv || (isDoc(it.Kind) && reservedKey([]byte(it.Key))) {
					ix.absorbed[vb] = append(ix.absorbed[vb], struct {
						t   int64
						seq uint64
					}{it.T, it.Seq})
				}
			}
		}
	}
	return ix
}

// OracleNeverAhead: every store write names a position that was already settled when it was applied.
func OracleNeverAhead(tr *Trace) []Finding {
	var fs []Finding
	ix := buildSettleIndex(tr)
	delivered := map[[2]uint64]bool{}
	sent := map[[2]uint64]byte{}
	for _, e := range tr.Events {
		delivered[[2]uint64{uint64(e.VB), e.Seq}] = true
	}
	for vb, segs := range tr.Segs {
		for _, sg := range segs {
			for _, it := range sg.Items {
				sent[[2]uint64{uint64(vb), it.Seq}] = it.Kind
			}
		}
	}
	writes := storeWrites(tr)
	if tr.Spec.Backend == "file" {
		writes = append(writes, fileStateWrites(tr)...)
	}
	for _, w := range writes {
		ok := false
		for _, r := range ix.resume[w.VB] {
			if r.t < w.T && r.seq == w.Seq {
				ok = true
			}
		}
		if ps, has := tr.Spec.PreStore[w.VB]; has && ps[1] == w.Seq {
			ok = true
		}
		for _, a := range ix.ackCall[w.VB] {
			if a.t < w.T && a.seq == w.Seq {
				ok = true
			}
		}
		for _, a := range ix.absorbed[w.VB] {
			if a.t < w.T && a.seq == w.Seq {
				ok = true
			}
		}
		if ok {
			continue
		}
		shape := "unknown-position"
		if delivered[[2]uint64{uint64(w.VB), w.Seq}] {
			shape = "delivered-but-unacknowledged-event"
		} else if k, s := sent[[2]uint64{uint64(w.VB), w.Seq}]; s {
			shape = fmt.Sprintf("sent-item-kind-%c-not-settled", k)
		} else {
			for _, segs := range tr.Segs[w.VB] {
				for _, it := range segs.Items {
					if it.MarkE == w.Seq {
						shape = "snapshot-end"
					}
				}
			}
		}
		fs = append(fs, Finding{"C01", "never-ahead", "C01/never-ahead/" + shape,
			fmt.Sprintf("store write at tick %d: vb %d seqno %d (snapshot [%d,%d]) is neither a resume position nor an event acknowledged or absorbed before the write (%s)", w.T, w.VB, w.Seq, w.Tup.ss, w.Tup.se, shape)})
	}
	return fs
}

// crashStates returns the store content after every prefix of the writes (the states a process death
// can leave behind, including a partially executed multi-vBucket save).
func crashStates(tr *Trace) []struct {
	T     int64
	Store map[int]tuple
} {
	cur := map[int]tuple{}
	for vb, ps := range tr.Spec.PreStore {
		cur[vb] = tuple{ps[0], ps[1], ps[2], ps[3]}
	}
	var out []struct {
		T     int64
		Store map[int]tuple
	}
	cp := func(t int64) {
		m := map[int]tuple{}
		for k, v := range cur {
			m[k] = v
		}
		out = append(out, struct {
			T     int64
			Store map[int]tuple
		}{t, m})
	}
	cp(0)
	for _, w := range storeWrites(tr) {
		cur[w.VB] = w.Tup
		cp(w.T)
	}
	return out
}

// OracleCrashStates: for every crash state, no vBucket's stored position is at or beyond an event that
// was delivered before the crash and is unsettled at the crash (rule 1).
func OracleCrashStates(tr *Trace) ([]Finding, int) {
	var fs []Finding
	ix := buildSettleIndex(tr)
	states := crashStates(tr)
	for si, st := range states {
		// crash instant = just after write si was applied (or session start); any instant up to the next write has the same store
		next := int64(1<<62 - 1)
		if si+1 < len(states) {
			next = states[si+1].T
		}
		for _, P := range []int64{st.T + 1, next} {
			for vb := 0; vb < tr.Spec.NumVB; vb++ {
				stored, has := st.Store[vb]
				if !has {
					continue
				}
				for _, e := range tr.Events {
					if int(e.VB) != vb || e.T >= P || e.Seq > stored.seq {
						continue
					}
					settled := false
					for _, a := range ix.ackCall[vb] {
						if a.t < P && a.seq >= e.Seq {
							settled = true
						}
					}
					for _, a := range ix.absorbed[vb] {
						if a.t < P && a.seq >= e.Seq {
							settled = true
						}
					}
					if !settled {
						fs = append(fs, Finding{"C01", "crash-skip", "C01/crash-skip",
							fmt.Sprintf("crash at tick %d (after store write %d): vb %d checkpoint %d is at/after event %d that was delivered at tick %d and is unsettled at the crash; a restart would skip it", P, si, vb, stored.seq, e.Seq, e.T)})
						break
					}
				}
			}
		}
	}
	return fs, len(states)
}

func c01Spec(rng *rand.Rand, i int) *SessSpec {
	sp := &SessSpec{NumVB: 1 + rng.Intn(6), Nodes: 1 + rng.Intn(2), AckSeed: rng.Int63(), Backlog: map[int][][]ItemSpec{}}
	sp.Backend = []string{"mem", "cb", "mem", "cb", "file"}[rng.Intn(5)]
	switch rng.Intn(4) {
	case 0:
		sp.PNow, sp.PDefer = 1, 0
	case 1:
		sp.PNow, sp.PDefer = 0.2, 0.5 // some withheld for ever
	case 2:
		sp.PNow, sp.PDefer = 0, 0.8
	default:
		sp.PNow, sp.PDefer = 0.5, 0.5
	}
	sp.PCommitIn = []float64{0, 0, 0.2}[rng.Intn(3)]
	sp.CommitUnacked = rng.Intn(2) == 0
	if rng.Intn(2) == 0 {
		sp.Auto, sp.IntervalMs = true, 1+rng.Intn(6)
	}
	if sp.Backend == "mem" && rng.Intn(3) == 0 {
		for k := 0; k < 3; k++ {
			sp.FailSaves = append(sp.FailSaves, 1+rng.Intn(8))
		}
		sp.SlowSaveMs = rng.Intn(3)
	}
	if rng.Intn(5) == 0 {
		sp.AutoReset = "latest"
	}
	o := &HistOpts{NumVB: sp.NumVB, PReserved: 0.1, PSystem: 0.08, PSeqAdv: 0.2, MaxItems: 5}
	if i%5 == 3 {
		// a skip window: events whose CAS time lies before it are dropped by the library - they are neither acknowledged nor
		// absorbed, so no checkpoint may name them while earlier deliveries are unsettled
		sp.SkipUntil = time.Now().Unix() - int64(rng.Intn(3))
		o.SkipUntil = sp.SkipUntil
		o.CasAround = true
	}
	ctr := 0
	for vb := 0; vb < sp.NumVB; vb++ {
		for s := 0; s < rng.Intn(3); s++ {
			sp.Backlog[vb] = append(sp.Backlog[vb], genSnap(rng, o, &ctr))
		}
	}
	for k := 0; k < 4+rng.Intn(14); k++ {
		sp.Steps = append(sp.Steps, Step{Op: "append", VB: rng.Intn(sp.NumVB), Items: genSnap(rng, o, &ctr)})
		switch rng.Intn(7) {
		case 0:
			sp.Steps = append(sp.Steps, Step{Op: "barrier"})
		case 1, 2:
			sp.Steps = append(sp.Steps, Step{Op: "ack", Sel: []string{"oldest", "newest", "random"}[rng.Intn(3)], N: 1 + rng.Intn(3)})
		case 3:
			sp.Steps = append(sp.Steps, Step{Op: "commit"})
		}
	}
	sp.Steps = append(sp.Steps, Step{Op: "barrier"}, Step{Op: "commit"})
	if rng.Intn(2) == 0 {
		sp.Steps = append(sp.Steps, Step{Op: "ack", Sel: "random", N: 2}, Step{Op: "commit"})
	}
	if rng.Intn(3) == 0 {
		sp.NoFinalClose = true // the process "dies" without a graceful close
	}
	if i%6 == 5 {
		// finite mode: every stream ends normally at the sequence number sampled at start-up and the client stops on
		// its own with a final save, while acknowledgements are still outstanding
		sp.Mode, sp.Auto, sp.IntervalMs, sp.NoFinalClose, sp.AutoReset = "finite", true, 2+rng.Intn(4), false, ""
		for vb := 0; vb < sp.NumVB; vb++ {
			if len(sp.Backlog[vb]) == 0 {
				sp.Backlog[vb] = append(sp.Backlog[vb], genSnap(rng, o, &ctr))
			}
		}
		sp.Steps = []Step{{Op: "waitstop", Ms: 5000}}
	}
	return sp
}

// c01Regroup: file back end (one file for every vBucket ever owned), dynamic membership: the member gives its range up
// for a disjoint one and later takes everything. The file must never name a position nobody settled - also not for the
// vBuckets given up, whose servers have moved on meanwhile.
func c01Regroup(rng *rand.Rand, j int) *SessSpec {
	n := []int{4, 6, 8}[rng.Intn(3)]
	sp := &SessSpec{NumVB: n, Nodes: 1, AckSeed: rng.Int63(), Backend: "file", Membership: "dynamic", FirstInfo: [2]int{1, 2}, API: true, PNow: 0.4, PDefer: 0.6, Backlog: map[int][][]ItemSpec{},
		AutoReset: []string{"latest", "latest", ""}[j%3]}
	o := &HistOpts{NumVB: n, PSystem: 0.05, PSeqAdv: 0.1, MaxItems: 4}
	ctr := 0
	for vb := 0; vb < n; vb++ {
		sp.Backlog[vb] = append(sp.Backlog[vb], genSnap(rng, o, &ctr))
	}
	lo, hi := rng.Intn(n/2), n/2+rng.Intn(n/2)
	// some deliveries of the first range stay unacknowledged: its servers are ahead of the stored positions when it is given up
	sp.Steps = []Step{{Op: "barrier"}, {Op: "append", VB: lo, Items: genSnap(rng, o, &ctr)}, {Op: "append", VB: lo, Items: genSnap(rng, o, &ctr)}, {Op: "barrier"}, {Op: "commit"},
		{Op: "membership", N: 2, VB: 2}, {Op: "waitrebalance", N: 1}, {Op: "barrier"},
		{Op: "append", VB: lo, Items: genSnap(rng, o, &ctr)}, {Op: "append", VB: hi, Items: genSnap(rng, o, &ctr)}, {Op: "barrier"}, {Op: "commit"},
		{Op: "membership", N: 1, VB: 1}, {Op: "waitrebalance", N: 2}, {Op: "barrier"}, {Op: "commit"}}
	return sp
}

// restartSpec builds the second session of a crash/restart pair: same history, the store as it was in
// the chosen crash state, every delivery acknowledged.
func restartSpec(tr *Trace, st map[int]tuple, seed int64) *SessSpec {
	sp := &SessSpec{NumVB: tr.Spec.NumVB, Nodes: tr.Spec.Nodes, Backend: tr.Spec.Backend, AckSeed: seed, PNow: 1, Backlog: map[int][][]ItemSpec{}, PreStore: map[int][4]uint64{},
		AutoReset: tr.Spec.AutoReset, Colls: tr.Spec.Colls, CollNames: tr.Spec.CollNames, SkipUntil: tr.Spec.SkipUntil}
	for vb := 0; vb < tr.Spec.NumVB; vb++ {
		var seqs []uint64
		for s := range tr.Items[vb] {
			seqs = append(seqs, s)
		}
		sort.Slice(seqs, func(i, j int) bool { return seqs[i] < seqs[j] })
		var cur []ItemSpec
		var curS, curE uint64
		for _, s := range seqs {
			it := tr.Items[vb][s]
			is := ItemSpec{K: string(rune(it.Kind)), Key: it.Key, Val: it.Value, Cas: it.Cas, Rev: it.RevNo, Flags: it.Flags, Expiry: it.Expiry, Cid: it.Cid, DT: it.Datatype, Seq: it.SeqNo, Sys: it.SysEvent}
			if len(cur) > 0 && (it.SnapS != curS || it.SnapE != curE) {
				sp.Backlog[vb] = append(sp.Backlog[vb], cur)
				cur = nil
			}
			curS, curE = it.SnapS, it.SnapE
			cur = append(cur, is)
		}
		if len(cur) > 0 {
			sp.Backlog[vb] = append(sp.Backlog[vb], cur)
		}
		if t, ok := st[vb]; ok {
			sp.PreStore[vb] = [4]uint64{t.uuid, t.seq, t.ss, t.se}
		}
	}
	sp.Steps = []Step{{Op: "barrier"}}
	return sp
}

func init() {
	drv.Register(&drv.Prop{
		ID: "C01", Level: "fault_enumeration", Parallel: 10, Batch: 6, MinConclusive: 40,
		Rule: "sessions with immediate / delayed / batched / withheld acknowledgements, periodic + explicit + listener-issued saves, rejected saves, three back ends, 1-6 vBuckets; " +
			"never-ahead: every store write (custom-store write, decoded xattr mutation received by the simulated node, file save) must name a resume position or an event whose ack call / absorption precedes it; " +
			"crash points: the store content after EVERY prefix of the per-vBucket writes (i.e. a process death between any two writes, including inside a multi-vBucket save) is enumerated from the log and checked against the deliveries unsettled at that instant; " +
			"restart: one crash state per session is handed to a real second session whose stream requests must start at the stored positions and which must deliver every event unsettled at the crash. " +
			"Non-trivial: a crash state lying between an acknowledgement and the next write or inside a multi-vBucket save, with >=1 delivered-but-unsettled event; distinct = distinct abstract traces",
		Assumptions: []string{"the store is external to the process, so 'process dies at tick P' leaves exactly the writes applied before P (no SIGKILL needed to enumerate crash points); file back end: byte-prefix truncation is exercised in the thorough tier only",
			"settled is cumulative per vBucket (DESIGN §3 rule 1)"},
		Gen: func(seed int64, tier string) []drv.Scenario {
			rng := rand.New(rand.NewSource(seed))
			n := 300
			if tier == "thorough" {
				n = 4000
			}
			var out []drv.Scenario
			for i := 0; i < n; i++ {
				sc := drv.Scenario{Kind: "crashpoints", Seed: seed + int64(i), Params: mustJSON(c01Spec(rng, i)), TimeoutS: 120}
				if tier == "thorough" && i%5 == 0 {
					sc.Race = true
				}
				out = append(out, sc)
			}
			// the simple listener API (NewDcp(cfg, listener)): a listener that panics on one document. The process may die of it
			// (the event stays unsettled, a restart delivers it again); it may not go on with the event counted as settled
			for j := 0; j < 3; j++ {
				out = append(out, drv.Scenario{Kind: "listener-panic", Seed: seed, Params: mustJSON(&SessSpec{NumVB: 1 + j, AckSeed: int64(j)}), TimeoutS: 60, Solo: true})
			}
			xr := rand.New(rand.NewSource(seed*53 + 3))
			for j := 0; j < n/25; j++ {
				out = append(out, drv.Scenario{Kind: "regroup", Seed: seed, Params: mustJSON(c01Regroup(xr, j)), TimeoutS: 120, Solo: true})
			}
			return out
		},
		OnDeath: func(sc drv.Scenario, out drv.ChildOutcome) drv.Result {
			if sc.Kind == "listener-panic" && strings.Contains(out.Stderr, "listener cannot handle this document") {
				return drv.Result{Verdict: drv.Held, Checks: 1, Nontrivial: true, TraceHash: drv.Hash("listener-panic", "died"), Events: map[string]int{"process_deaths": 1},
					Sample: map[string]any{"kind": "listener-panic", "outcome": "the listener's panic ended the process; nothing beyond the event was stored (notes: " + strings.Join(out.Notes, "; ") + ")"}}
			}
			return drv.Result{Verdict: drv.Inconclusive, Detail: "child died: " + drv.PanicLine(out.Stderr), Foreign: []string{"process death: " + drv.PanicLine(out.Stderr)}}
		},
		Run: func(sc drv.Scenario) drv.Result {
			var sp SessSpec
			if err := json.Unmarshal(sc.Params, &sp); err != nil {
				return drv.Result{Verdict: drv.Inconclusive, Detail: err.Error()}
			}
			if sc.Kind == "listener-panic" {
				return c01ListenerPanic(&sp)
			}
			tr := RunSession(&sp)
			if tr.StartErr != "" {
				return drv.Result{Verdict: drv.Inconclusive, Detail: tr.StartErr}
			}
			if sc.Kind == "regroup" {
				fs := OracleNeverAhead(tr)
				for _, f := range OracleDelivery(tr) {
					if f.Prop == "C03" && f.Clause == "list" && strings.HasSuffix(f.Key, "missing") {
						fs = append(fs, Finding{"C01", "restart", "C01/regroup-skip", "after the member took the vBucket back: " + f.Detail})
					}
				}
				cycles := tr.count("eh.ARE")
				if cycles < 2 {
					return drv.Result{Verdict: drv.Inconclusive, Detail: fmt.Sprintf("only %d of 2 rebalances observed", cycles)}
				}
				return sessionResult("C01", tr, fs, true, map[string]any{"kind": "regroup", "vbuckets": sp.NumVB, "auto_reset": sp.AutoReset, "file_entries_written": len(fileStateWrites(tr)), "rebalances": cycles})
			}
			fs := OracleNeverAhead(tr)
			cf, nstates := OracleCrashStates(tr)
			fs = append(fs, cf...)
			// real restart from one crash state
			rng := rand.New(rand.NewSource(sc.Seed))
			states := crashStates(tr)
			pick := states[rng.Intn(len(states))]
			nextT := int64(1<<62 - 1)
			for _, s := range states {
				if s.T > pick.T {
					nextT = s.T
					break
				}
			}
			ix := buildSettleIndex(tr)
			rs := restartSpec(tr, pick.Store, sc.Seed)
			tr2 := RunSession(rs)
			restartInfo := map[string]any{"crash_after_tick": pick.T, "store": fmt.Sprint(pick.Store)}
			if tr2.StartErr != "" {
				restartInfo["start_error"] = tr2.StartErr
			} else if sp.AutoReset == "latest" && len(pick.Store) == 0 {
				// auto-reset 'latest' with no checkpoint at all: the documented start point is the current high
				// seqno (C02); there is no checkpoint that could be ahead of anything (DESIGN §4 C01 (e))
				restartInfo["latest_mode_empty_store"] = true
			} else {
				for vb := 0; vb < sp.NumVB; vb++ {
					segs := tr2.Segs[vb]
					if len(segs) == 0 {
						continue
					}
					start := segs[0].Start
					// first event delivered before the crash instant (just before the next write) that is unsettled then
					for _, e := range tr.Events {
						if int(e.VB) != vb || e.T >= nextT {
							continue
						}
						settled := false
						for _, a := range ix.ackCall[vb] {
							if a.t < nextT && a.seq >= e.Seq {
								settled = true
							}
						}
						for _, a := range ix.absorbed[vb] {
							if a.t < nextT && a.seq >= e.Seq {
								settled = true
							}
						}
						if settled {
							continue
						}
						if start >= e.Seq {
							fs = append(fs, Finding{"C01", "restart-skip", "C01/restart-skip", fmt.Sprintf("restart from the store as of tick %d: vb %d is requested from %d, at/after event %d that was delivered but unsettled at the crash", pick.T, vb, start, e.Seq)})
						} else {
							re := false
							for _, e2 := range tr2.Events {
								if int(e2.VB) == vb && e2.Seq == e.Seq {
									re = true
								}
							}
							if !re && tr2.BarrierTimeouts == 0 {
								fs = append(fs, Finding{"C01", "restart-skip", "C01/restart-not-redelivered", fmt.Sprintf("restart from the store as of tick %d: vb %d event %d (unsettled at the crash) was not delivered again", pick.T, vb, e.Seq)})
							}
						}
						break
					}
				}
			}
			// non-trivial: some crash state with an unsettled delivered event and a partial multi-vb save or ack/write gap
			nt := false
			unsettledSomewhere := false
			for _, e := range tr.Events {
				s := false
				for _, a := range ix.ackCall[int(e.VB)] {
					if a.seq >= e.Seq {
						s = true
					}
				}
				if !s {
					unsettledSomewhere = true
				}
			}
			if nstates > 2 && (unsettledSomewhere || len(sp.FailSaves) > 0) {
				nt = true
			}
			sample := map[string]any{"backend": sp.Backend, "vbuckets": sp.NumVB, "deliveries": len(tr.Events), "acks": tr.count("cons.ack.call"), "store_writes": nstates - 1,
				"crash_states_checked": nstates, "restart": restartInfo, "auto": sp.Auto, "failed_saves": sp.FailSaves}
			r := sessionResult("C01", tr, fs, nt, sample)
			r.Checks = nstates
			r.Events["crash_states"] = nstates
			r.Events["restarts"] = 1
			if tr2.FilePath != "" {
				os.Remove(tr2.FilePath)
			}
			return r
		},
	})
}

// c01ListenerPanic: NewDcp(cfg, listener) on the simulated node; the listener acknowledges every document except one, on
// which it panics. Automatic checkpoints every 5 ms. Whatever the library does with the panic, no checkpoint may name the
// panicking event (or anything behind it on that vBucket): it was never acknowledged.
func c01ListenerPanic(sp *SessSpec) drv.Result {
	hx.QuietLogger()
	env, err := hx.NewEnv(hx.EnvOpts{NumVB: sp.NumVB})
	if err != nil {
		return drv.Result{Verdict: drv.Inconclusive, Detail: err.Error()}
	}
	defer env.Close()
	badSeq := uint64(6) // the last document of vBucket 0: nothing acknowledged later can settle it (settling is cumulative)
	for vb := 0; vb < sp.NumVB; vb++ {
		var its []cbsim.Item
		for k := 0; k < 6; k++ {
			its = append(its, cbsim.Item{Kind: cbsim.KMutation, Key: []byte(fmt.Sprintf("lp-%d-%d", vb, k)), Value: []byte("{}")})
		}
		env.Sim.Append(uint16(vb), its)
	}
	cfg := env.BaseConfig()
	cfg.Checkpoint.Type = "auto"
	cfg.Checkpoint.Interval = 5 * time.Millisecond
	var mu sync.Mutex
	acked := map[[2]uint64]bool{}
	d, err := dcp.NewDcp(cfg, func(ctx *models.ListenerContext) {
		switch e := ctx.Event.(type) {
		case models.DcpMutation:
			if e.VbID == 0 && e.SeqNo == badSeq {
				drv.NoteFlush("listener panics on vb 0 seq %d", badSeq)
				panic("listener cannot handle this document")
			}
			mu.Lock()
			acked[[2]uint64{uint64(e.VbID), e.SeqNo}] = true
			mu.Unlock()
			ctx.Ack()
		default:
			ctx.Ack()
		}
	})
	if err != nil {
		return drv.Result{Verdict: drv.Inconclusive, Detail: "NewDcp: " + err.Error()}
	}
	done := make(chan struct{})
	go func() { defer close(done); d.Start() }()
	time.Sleep(600 * time.Millisecond)
	// still alive: look at what reached the store
	var fs []string
	for _, r := range env.Log.Snapshot() {
		if r.K != "sim.xattrwrite" {
			continue
		}
		mu.Lock()
		wasAcked := false
		if vb, t, ok := decodeXattrWrite(r.S); ok {
			wasAcked = acked[[2]uint64{uint64(vb), t.seq}]
		}
		mu.Unlock()
		if vb, t, ok := decodeXattrWrite(r.S); ok && vb == 0 && t.seq >= badSeq && !wasAcked {
			fs = append(fs, fmt.Sprintf("checkpoint write for vb 0 names seqno %d (snapshot [%d,%d]); the listener panicked on seqno %d and never acknowledged it", t.seq, t.ss, t.se, badSeq))
		}
	}
	d.Close()
	select {
	case <-done:
	case <-time.After(20 * time.Second):
	}
	res := drv.Result{Verdict: drv.Held, Checks: 1, Nontrivial: true, TraceHash: drv.Hash("listener-panic", fmt.Sprint(sp.NumVB)), Events: map[string]int{"sim.xattrwrite": env.Log.Count("sim.xattrwrite")},
		Sample: map[string]any{"kind": "listener-panic", "outcome": "the client went on", "checkpoint_writes": env.Log.Count("sim.xattrwrite")}}
	if len(fs) > 0 {
		res.Verdict, res.Clause, res.FindingKey, res.Detail = drv.Violated, "never-ahead", "C01/never-ahead/listener-panic", strings.Join(fs[:1], " | ")
	}
	return res
}
