package props

import (
	"context"
	"encoding/json"
	"errors"
	"fmt"
	"math/rand"
	"strings"
	"sync"
	"time"

	"github.com/Trendyol/go-dcp/config"
	"github.com/Trendyol/go-dcp/couchbase"
	"github.com/Trendyol/go-dcp/models"
	"github.com/couchbase/gocbcore/v10"
	"github.com/couchbase/gocbcore/v10/memd"

	"verif/harness/cbsim"
	"verif/harness/drv"
	"verif/harness/evlog"
	"verif/harness/hx"
)

// C20 — no Couchbase call made by the library can hang or invent an outcome.

type c20Case struct {
	Wrapper   string `json:"wrapper"`
	Behaviour string `json:"behaviour"` // ok status early late never drop
	Status    int    `json:"status,omitempty"`
	Nth       int    `json:"nth,omitempty"`    // which matching request gets the behaviour (1-based; 0 = every)
	Exists    bool   `json:"exists,omitempty"` // target document exists beforehand
}

type c20Params struct {
	Cases []c20Case `json:"cases"`
}

const c20Deadline = 300 * time.Millisecond

type pendingFake struct {
	cancelled chan struct{}
	once      sync.Once
}

func (p *pendingFake) Cancel() { p.once.Do(func() { close(p.cancelled) }) }

func c20Wrappers() []string {
	return []string{"UpsertXattrs", "CreateDocument", "UpdateDocument", "DeleteDocument", "GetXattrs", "Get", "CreatePath", "MetadataSave", "MetadataLoad", "Ping", "GetFailOverLogs", "GetVBucketSeqNos", "OpenStream", "CloseStream",
		"GetVBucketSeqNosColl", "GetCollectionIDs", "MetadataClear", "MetadataSaveBig"}
}

// op codes whose reply decides the outcome of a wrapper
func c20Ops(w string) []byte {
	switch w {
	case "UpsertXattrs", "UpdateDocument", "CreatePath", "MetadataSave", "MetadataSaveBig":
		return []byte{cbsim.OpSubdocMutate}
	case "CreateDocument":
		return []byte{cbsim.OpSet}
	case "DeleteDocument":
		return []byte{cbsim.OpDelete}
	case "GetXattrs", "MetadataLoad":
		return []byte{cbsim.OpSubdocLookup}
	case "Get":
		return []byte{cbsim.OpGet}
	case "Ping":
		return []byte{cbsim.OpNoop}
	case "GetFailOverLogs":
		return []byte{cbsim.OpDcpFailoverLog}
	case "GetVBucketSeqNos", "GetVBucketSeqNosColl":
		return []byte{cbsim.OpGetAllVBSeqnos}
	case "GetCollectionIDs":
		return []byte{cbsim.OpGetCollID}
	case "MetadataClear":
		return []byte{cbsim.OpDelete}
	case "OpenStream":
		return []byte{cbsim.OpDcpStreamReq}
	case "CloseStream":
		return []byte{cbsim.OpDcpCloseStream}
	}
	return nil
}

func c20Slow(w string) bool { // hard-coded 60 s (5 s for the checkpoint lookup) deadlines
	switch w {
	case "GetFailOverLogs", "GetVBucketSeqNos", "OpenStream", "CloseStream", "GetVBucketSeqNosColl", "GetCollectionIDs":
		return true
	}
	return false
}

func init() {
	drv.Register(&drv.Prop{
		ID: "C20", Level: "fault_enumeration", Parallel: 12, Batch: 1, MinConclusive: 20,
		Rule: "wrapper x server behaviour matrix against the simulated node: UpsertXattrs, CreateDocument, UpdateDocument, DeleteDocument, GetXattrs, Get, CreatePath (caller deadline 300 ms), cbMetadata.Save/Load, Client.Ping, GetFailOverLogs, GetVBucketSeqNos, OpenStream, CloseStream " +
			"x {prompt OK, error statuses (no access, internal, no memory, temporary failure, key not found / exists), reply shortly before the deadline, reply after the deadline, no reply, connection drop}; " +
			"plus the AsyncOp contract with a scripted PendingOp (completion before / after / together with the context expiry, error from the dispatch call). " +
			"Oracle: the call returns by its deadline + slack (hang rule), success is returned only if the node sent an OK reply to the deciding request, key-not-found surfaces as such, a late completion neither blocks nor kills the process. " +
			"Non-trivial: any behaviour other than prompt OK; distinct = distinct (wrapper, behaviour, status)",
		Assumptions: []string{"wrappers with hard-coded 60 s deadlines get the no-reply / late-reply behaviours only in the thorough tier", "gocbcore retries temporary failures until the deadline (an error is then expected, never success)"},
		Gen: func(seed int64, tier string) []drv.Scenario {
			rng := rand.New(rand.NewSource(seed))
			var out []drv.Scenario
			var cases []c20Case
			for _, w := range c20Wrappers() {
				behs := []c20Case{{Behaviour: "ok"}, {Behaviour: "ok", Exists: true}, {Behaviour: "status", Status: 0x24}, {Behaviour: "status", Status: 0x84}, {Behaviour: "status", Status: 0x82},
					{Behaviour: "status", Status: 0x86}, {Behaviour: "drop"}}
				if !c20Slow(w) {
					behs = append(behs, c20Case{Behaviour: "early"}, c20Case{Behaviour: "late"}, c20Case{Behaviour: "never"})
					if w == "MetadataSave" {
						// the first write of a vBucket is lookup-miss, create, upsert again: fault the second upsert
						behs = append(behs, c20Case{Behaviour: "never", Nth: 2}, c20Case{Behaviour: "status", Status: 0x82, Nth: 2}, c20Case{Behaviour: "late", Nth: 2})
					}
				} else if tier == "thorough" {
					behs = append(behs, c20Case{Behaviour: "never"}, c20Case{Behaviour: "late"})
				}
				if w == "MetadataSaveBig" {
					// one save that carries 48 dirty vBuckets; one of the writes fails or is never answered
					behs = []c20Case{{Behaviour: "ok"}, {Behaviour: "ok", Exists: true}, {Behaviour: "status", Status: 0x82, Nth: 5}, {Behaviour: "status", Status: 0x24, Nth: 40}, {Behaviour: "never", Nth: 7}, {Behaviour: "late", Nth: 3}}
				}
				if w == "OpenStream" {
					// every stream request is answered "roll back", also the re-request at the rollback point
					behs = append(behs, c20Case{Behaviour: "rollback-always"})
				}
				if w == "GetCollectionIDs" || w == "GetVBucketSeqNosColl" {
					behs = append(behs, c20Case{Behaviour: "status", Status: 0x88}, c20Case{Behaviour: "status", Status: 0x88, Nth: 2})
				}
				if w == "Get" || w == "GetXattrs" || w == "DeleteDocument" || w == "UpsertXattrs" || w == "UpdateDocument" {
					behs = append(behs, c20Case{Behaviour: "status", Status: 0x01})
				}
				for _, b := range behs {
					b.Wrapper = w
					if w == "GetCollectionIDs" && ((b.Behaviour == "status" && b.Status == 0x86) || b.Behaviour == "drop") && tier != "thorough" {
						continue // the collection-id lookup is retried on TMPFAIL / a dropped connection until its own 30 s deadline
					}
					cases = append(cases, b)
				}
			}
			reps := 1
			if tier == "thorough" {
				reps = 5
			}
			for r := 0; r < reps; r++ {
				for _, c := range cases {
					to := 60
					if c.Behaviour == "never" || c.Behaviour == "late" || c.Behaviour == "rollback-always" {
						to = 150
					}
					out = append(out, drv.Scenario{Kind: "wrapper", Seed: seed + int64(r), Params: mustJSON(c20Params{Cases: []c20Case{c}}), TimeoutS: to, Solo: true})
				}
			}
			for _, k := range []string{"before", "after", "simultaneous", "dispatch-error", "late-many", "late-into-next"} {
				n := 1
				if tier == "thorough" {
					n = 20
				}
				for i := 0; i < n; i++ {
					out = append(out, drv.Scenario{Kind: "asyncop", Seed: seed + int64(rng.Intn(1000)), Params: mustJSON(c20Params{Cases: []c20Case{{Wrapper: "AsyncOp", Behaviour: k}}}), TimeoutS: 60, Solo: true})
				}
			}
			return out
		},
		Run: func(sc drv.Scenario) drv.Result {
			var p c20Params
			if err := json.Unmarshal(sc.Params, &p); err != nil {
				return drv.Result{Verdict: drv.Inconclusive, Detail: err.Error()}
			}
			c := p.Cases[0]
			if sc.Kind == "asyncop" {
				return c20AsyncOp(c)
			}
			return c20RunWrapper(c)
		},
		OnDeath: func(sc drv.Scenario, out drv.ChildOutcome) drv.Result {
			var p c20Params
			_ = json.Unmarshal(sc.Params, &p)
			c := p.Cases[0]
			if drv.IsLibraryPanic(out.Stderr) && c.Wrapper == "MetadataLoad" && c.Behaviour != "ok" && c.Behaviour != "early" {
				// a checkpoint that cannot be loaded fail-stops the client by design (C15): the documented "error" outcome of Load
				late := false
				for _, n := range out.Notes {
					if strings.HasPrefix(n, "returned") {
						late = true
					}
				}
				return drv.Result{Verdict: drv.Held, Nontrivial: true, TraceHash: drv.Hash("death", c.Wrapper, c.Behaviour, fmt.Sprint(c.Status)), Checks: 1, Events: map[string]int{"process_deaths": 1},
					Sample: map[string]any{"wrapper": c.Wrapper, "behaviour": c.Behaviour, "status": c.Status, "outcome": "fail-stop: " + drv.PanicLine(out.Stderr), "after_return": late}}
			}
			if drv.IsLibraryPanic(out.Stderr) {
				returned := false
				for _, n := range out.Notes {
					if strings.HasPrefix(n, "returned") {
						returned = true
					}
				}
				return drv.Result{Verdict: drv.Violated, Clause: "panic", FindingKey: "C20/panic/" + c.Wrapper + "/" + c.Behaviour, Nontrivial: true, TraceHash: drv.Hash("death", c.Wrapper, c.Behaviour),
					Detail: fmt.Sprintf("%s with server behaviour %q (status 0x%x): the process died (call had returned: %v): %s", c.Wrapper, c.Behaviour, c.Status, returned, drv.PanicLine(out.Stderr)), Witness: out.Stderr}
			}
			if out.TimedOut {
				return drv.Result{Verdict: drv.Inconclusive, Detail: "watchdog: " + drv.PanicLine(out.Stderr)}
			}
			return drv.Result{Verdict: drv.Inconclusive, Detail: "child ended: " + drv.PanicLine(out.Stderr)}
		},
	})
}

func c20AsyncOp(c c20Case) drv.Result {
	res := drv.Result{Verdict: drv.Held, Checks: 1, Nontrivial: true, TraceHash: drv.Hash("asyncop", c.Behaviour), Events: map[string]int{}, Sample: map[string]any{"kind": "asyncop", "case": c.Behaviour}}
	viol := func(clause, detail string) drv.Result {
		res.Verdict, res.Clause, res.FindingKey, res.Detail = drv.Violated, clause, "C20/asyncop/"+clause, detail
		return res
	}
	call := func(f func()) (panicked any, returned bool) {
		done := make(chan any, 1)
		go func() {
			defer func() { done <- recover() }()
			f()
		}()
		select {
		case p := <-done:
			return p, true
		case <-time.After(5 * time.Second):
			return nil, false
		}
	}
	switch c.Behaviour {
	case "before":
		ctx, cancel := context.WithTimeout(context.Background(), 200*time.Millisecond)
		defer cancel()
		op := couchbase.NewAsyncOp(ctx)
		pf := &pendingFake{cancelled: make(chan struct{})}
		op.Resolve()
		var err error
		p, ret := call(func() { err = op.Wait(pf, nil) })
		if !ret || p != nil {
			return viol("blocked", fmt.Sprintf("Wait after an early completion: returned=%v panic=%v", ret, p))
		}
		if err != nil {
			return viol("outcome", fmt.Sprintf("operation completed before the deadline but Wait returned %v", err))
		}
	case "after", "late-many":
		ctx, cancel := context.WithTimeout(context.Background(), 30*time.Millisecond)
		defer cancel()
		op := couchbase.NewAsyncOp(ctx)
		pf := &pendingFake{cancelled: make(chan struct{})}
		var err error
		p, ret := call(func() { err = op.Wait(pf, nil) })
		if !ret || p != nil {
			return viol("blocked", fmt.Sprintf("Wait on a silent operation did not return by the deadline: returned=%v panic=%v", ret, p))
		}
		if err == nil {
			return viol("outcome", "silent operation: Wait returned success after the deadline")
		}
		select {
		case <-pf.cancelled:
		default:
			return viol("not-cancelled", "deadline expired but the pending operation was not cancelled")
		}
		n := 1
		if c.Behaviour == "late-many" {
			n = 1 // gocbcore completes an operation at most once
		}
		for i := 0; i < n; i++ {
			p, ret = call(func() { op.Resolve() })
			if !ret {
				return viol("late-completion-blocks", "a completion arriving after the deadline blocks its goroutine forever")
			}
			if p != nil {
				return viol("late-completion-panics", fmt.Sprintf("a completion arriving after the deadline panics: %v", p))
			}
		}
	case "simultaneous":
		for i := 0; i < 300; i++ {
			ctx, cancel := context.WithTimeout(context.Background(), time.Duration(1+i%3)*time.Millisecond)
			op := couchbase.NewAsyncOp(ctx)
			pf := &pendingFake{cancelled: make(chan struct{})}
			var wg sync.WaitGroup
			wg.Add(1)
			var rp any
			go func() {
				defer wg.Done()
				defer func() { rp = recover() }()
				time.Sleep(time.Duration(1+i%3) * time.Millisecond)
				op.Resolve()
			}()
			p, ret := call(func() { _ = op.Wait(pf, nil) })
			wg.Wait()
			cancel()
			if !ret || p != nil || rp != nil {
				return viol("race", fmt.Sprintf("completion racing with the deadline: Wait returned=%v panic=%v, Resolve panic=%v", ret, p, rp))
			}
		}
	case "late-into-next":
		// the completion of a call that timed out arrives while a LATER call (which the server never answers) is waiting: the
		// later call still ends at its own deadline, with an error and a cancelled operation - not with the earlier call's outcome
		for i := 0; i < 25; i++ {
			ctx1, cancel1 := context.WithTimeout(context.Background(), 10*time.Millisecond)
			op1 := couchbase.NewAsyncOp(ctx1)
			pf1 := &pendingFake{cancelled: make(chan struct{})}
			var err1 error
			p, ret := call(func() { err1 = op1.Wait(pf1, nil) })
			cancel1()
			if !ret || p != nil || err1 == nil {
				return viol("outcome", fmt.Sprintf("silent operation: Wait returned=%v panic=%v err=%v", ret, p, err1))
			}
			ctx2, cancel2 := context.WithTimeout(context.Background(), 150*time.Millisecond)
			op2 := couchbase.NewAsyncOp(ctx2)
			pf2 := &pendingFake{cancelled: make(chan struct{})}
			type out struct {
				err error
				p   any
			}
			done := make(chan out, 1)
			go func() {
				var o out
				defer func() { o.p = recover(); done <- o }()
				o.err = op2.Wait(pf2, nil)
			}()
			time.Sleep(15 * time.Millisecond)
			if p, ret := call(func() { op1.Resolve() }); !ret || p != nil {
				cancel2()
				return viol("late-completion-blocks", fmt.Sprintf("a completion arriving after the deadline: returned=%v panic=%v", ret, p))
			}
			var o out
			select {
			case o = <-done:
			case <-time.After(5 * time.Second):
				cancel2()
				return viol("blocked", "Wait on a silent operation did not return by its deadline")
			}
			cancel2()
			if o.p != nil {
				return viol("race", fmt.Sprintf("Wait panicked: %v", o.p))
			}
			if o.err == nil {
				return viol("invented-outcome", fmt.Sprintf("round %d: a call the server never answered reported success when the late completion of an EARLIER, timed-out call arrived", i))
			}
			select {
			case <-pf2.cancelled:
			default:
				return viol("not-cancelled", "deadline expired but the pending operation was not cancelled")
			}
		}
	case "dispatch-error":
		op := couchbase.NewAsyncOp(context.Background())
		de := errors.New("queue full")
		var err error
		p, ret := call(func() { err = op.Wait(nil, de) })
		if !ret || p != nil {
			return viol("blocked", fmt.Sprintf("Wait with a dispatch error: returned=%v panic=%v", ret, p))
		}
		if !errors.Is(err, de) {
			return viol("outcome", fmt.Sprintf("dispatch error %v reported as %v", de, err))
		}
	}
	return res
}

func c20RunWrapper(c c20Case) drv.Result {
	nvb := 4
	if c.Wrapper == "MetadataSaveBig" {
		nvb = 64
	}
	env, err := hx.NewEnv(hx.EnvOpts{NumVB: nvb})
	if err != nil {
		return drv.Result{Verdict: drv.Inconclusive, Detail: err.Error()}
	}
	defer env.Close()
	cfg := env.BaseConfig()
	cfg.Checkpoint.Timeout = c20Deadline
	cfg.HealthCheck.Timeout = c20Deadline
	if c.Wrapper == "GetVBucketSeqNosColl" || c.Wrapper == "GetCollectionIDs" {
		// two configured collections (the node knows both; an unknown one is scripted through the status behaviour)
		env.Sim.Collections["_default.c1"] = 8
		env.Sim.Collections["_default.c2"] = 9
		cfg.CollectionNames = []string{"c1", "c2"}
	}
	cfg.ApplyDefaults()
	cl := couchbase.NewClient(cfg)
	if err := cl.Connect(); err != nil {
		return drv.Result{Verdict: drv.Inconclusive, Detail: err.Error()}
	}
	if err := cl.DcpConnect(true, false); err != nil {
		return drv.Result{Verdict: drv.Inconclusive, Detail: err.Error()}
	}
	key := []byte("_connector:cbgo:c20:doc")
	ckKey := fmt.Sprintf("_connector:cbgo:%s:checkpoint:1", cfg.Dcp.Group.Name)
	if c.Exists && c.Wrapper == "MetadataClear" {
		for vb := 0; vb < 4; vb++ {
			env.Sim.PutDoc(fmt.Sprintf("_connector:cbgo:%s:checkpoint:%d", cfg.Dcp.Group.Name, vb), []byte(`{}`), map[string]json.RawMessage{"cbgo": json.RawMessage(`{"checkpoint":{"snapshot":{"startSeqno":1,"endSeqno":1},"vbuuid":1,"seqno":1},"bucketUuid":"u"}`)})
		}
	}
	if c.Exists && c.Wrapper == "MetadataSaveBig" {
		for vb := 0; vb < 48; vb++ {
			env.Sim.PutDoc(fmt.Sprintf("_connector:cbgo:%s:checkpoint:%d", cfg.Dcp.Group.Name, vb), []byte(`{}`), map[string]json.RawMessage{"cbgo": json.RawMessage(`{"checkpoint":{"snapshot":{"startSeqno":1,"endSeqno":1},"vbuuid":1,"seqno":1},"bucketUuid":"u"}`)})
		}
	}
	if c.Exists {
		env.Sim.PutDoc(string(key), []byte(`{"a":1}`), map[string]json.RawMessage{"cbgo": json.RawMessage(`{"x":1}`)})
		env.Sim.PutDoc(ckKey, []byte(`{}`), map[string]json.RawMessage{"cbgo": json.RawMessage(`{"checkpoint":{"snapshot":{"startSeqno":1,"endSeqno":1},"vbuuid":1,"seqno":1},"bucketUuid":"u"}`)})
	}
	// scripted behaviour for the deciding request(s)
	ops := c20Ops(c.Wrapper)
	var mu sync.Mutex
	matched := 0
	armed := false
	env.Sim.Hook = func(r *cbsim.Req) *cbsim.Action {
		mu.Lock()
		defer mu.Unlock()
		if !armed {
			return nil
		}
		is := false
		for _, o := range ops {
			if r.Op == o {
				is = true
			}
		}
		if !is {
			return nil
		}
		matched++
		if c.Nth != 0 && matched != c.Nth {
			return nil
		}
		env.Log.Add(evlog.Rec{K: "sim.behaviour", VB: int(r.VB), Op: int(r.Op), S: c.Behaviour, Opq: r.Opaque, Cn: r.ConnID})
		switch c.Behaviour {
		case "status":
			return &cbsim.Action{HasStatus: true, Status: uint16(c.Status)}
		case "early":
			return &cbsim.Action{Delay: c20Deadline * 7 / 10}
		case "late":
			d := c20Deadline + 150*time.Millisecond
			if c.Wrapper == "MetadataLoad" || c.Wrapper == "GetXattrs" {
				d = 5*time.Second + 200*time.Millisecond
			}
			return &cbsim.Action{Delay: d}
		case "never":
			return &cbsim.Action{NoReply: true}
		case "rollback-always":
			a := &cbsim.Action{HasStatus: true, Status: cbsim.StRollback, Value: make([]byte, 8)}
			if matched > 50 {
				a.Delay = 5 * time.Millisecond // keeps the log of a client that never gives up bounded
			}
			return a
		case "drop":
			return &cbsim.Action{Drop: true}
		}
		return nil
	}
	agent := cl.GetMetaAgent()
	var callErr error
	var gotVal []byte
	obs := couchbase.NewObserver(cfg, 1, ^uint64(0), func(models.ListenerArgs) {}, func(models.DcpStreamEndContext) {}, map[uint32]string{}, nil)
	if c.Wrapper == "CloseStream" {
		_ = cl.OpenStream(1, map[uint32]string{}, &models.Offset{SnapshotMarker: &models.SnapshotMarker{}, LatestSeqNo: ^uint64(0)}, obs)
	}
	deadline := c20Deadline // fixed before the call starts (the watchdog below reads it concurrently with run)
	switch c.Wrapper {
	case "GetXattrs", "MetadataLoad":
		deadline = 5 * time.Second
	case "GetFailOverLogs", "GetVBucketSeqNos", "OpenStream", "CloseStream", "GetVBucketSeqNosColl", "GetCollectionIDs":
		deadline = 60 * time.Second
	}
	run := func() {
		ctx, cancel := context.WithTimeout(context.Background(), c20Deadline)
		defer cancel()
		switch c.Wrapper {
		case "UpsertXattrs":
			callErr = couchbase.UpsertXattrs(ctx, agent, "_default", "_default", key, "cbgo", []byte(`{"v":2}`), 0)
		case "CreateDocument":
			callErr = couchbase.CreateDocument(ctx, agent, "_default", "_default", key, []byte(`{}`), 0, 0)
		case "UpdateDocument":
			callErr = couchbase.UpdateDocument(ctx, agent, "_default", "_default", key, []byte(`{"b":2}`), 0, nil)
		case "DeleteDocument":
			callErr = couchbase.DeleteDocument(ctx, agent, "_default", "_default", key)
		case "GetXattrs":
			gotVal, callErr = couchbase.GetXattrs(ctx, agent, "_default", "_default", key, "cbgo")
		case "Get":
			var r *gocbcore.GetResult
			r, callErr = couchbase.Get(ctx, agent, "_default", "_default", key)
			if r != nil {
				gotVal = r.Value
			}
		case "CreatePath":
			callErr = couchbase.CreatePath(ctx, agent, "_default", "_default", key, []byte("p1"), []byte(`1`), memd.SubdocDocFlagMkDoc)
		case "MetadataSave":
			md := couchbase.NewCBMetadata(cl, cfg)
			callErr = md.Save(map[uint16]*models.CheckpointDocument{1: models.NewEmptyCheckpointDocument("u")}, map[uint16]bool{1: true}, "u")
		case "MetadataSaveBig":
			md := couchbase.NewCBMetadata(cl, cfg)
			docs, dirty := map[uint16]*models.CheckpointDocument{}, map[uint16]bool{}
			for vb := uint16(0); vb < 48; vb++ {
				docs[vb], dirty[vb] = models.NewEmptyCheckpointDocument("u"), true
			}
			callErr = md.Save(docs, dirty, "u")
		case "MetadataLoad":
			md := couchbase.NewCBMetadata(cl, cfg)
			_, _, callErr = md.Load([]uint16{1}, "u")
		case "Ping":
			_, callErr = cl.Ping()
		case "GetFailOverLogs":
			_, callErr = cl.GetFailOverLogs(1)
		case "GetVBucketSeqNos":
			_, callErr = cl.GetVBucketSeqNos(false)
		case "GetVBucketSeqNosColl":
			_, callErr = cl.GetVBucketSeqNos(true)
		case "GetCollectionIDs":
			var ids map[uint32]string
			ids, callErr = cl.GetCollectionIDs("_default", []string{"c1", "c2"})
			if callErr == nil {
				for id, name := range ids {
					if (name == "c1" && id != 8) || (name == "c2" && id != 9) {
						callErr = nil
						gotVal = []byte(fmt.Sprintf("WRONG-ID %s=%d", name, id))
					}
				}
				if len(ids) != 2 && len(gotVal) == 0 {
					gotVal = []byte(fmt.Sprintf("WRONG-SET %v", ids))
				}
			}
		case "MetadataClear":
			md := couchbase.NewCBMetadata(cl, cfg)
			callErr = md.Clear([]uint16{0, 1, 2, 3})
		case "OpenStream":
			callErr = cl.OpenStream(2, map[uint32]string{}, &models.Offset{SnapshotMarker: &models.SnapshotMarker{}, LatestSeqNo: ^uint64(0)}, obs)
		case "CloseStream":
			callErr = cl.CloseStream(1)
		}
	}
	mu.Lock()
	armed = true
	mu.Unlock()
	t0 := evlog.Tick()
	w0 := time.Now()
	done := make(chan any, 1)
	go func() {
		defer func() { done <- recover() }()
		run()
	}()
	res := drv.Result{Verdict: drv.Held, Checks: 1, Nontrivial: c.Behaviour != "ok", TraceHash: drv.Hash("wrapper", c.Wrapper, c.Behaviour, fmt.Sprint(c.Status, c.Nth, c.Exists)), Events: map[string]int{}}
	viol := func(clause, detail string) drv.Result {
		res.Verdict, res.Clause, res.FindingKey, res.Detail = drv.Violated, clause, "C20/"+clause+"/"+c.Wrapper+"/"+c.Behaviour, detail
		return res
	}
	slack := 10 * time.Second
	select {
	case p := <-done:
		if p != nil {
			if c.Wrapper == "MetadataLoad" && (c.Behaviour == "status" || c.Behaviour == "never" || c.Behaviour == "late" || c.Behaviour == "drop") {
				// documented: a checkpoint that cannot be loaded stops the client (C15); here it surfaces as a panic of Load
			} else {
				return viol("panic", fmt.Sprintf("%s panicked: %v", c.Wrapper, p))
			}
			callErr = fmt.Errorf("panic: %v", p)
		}
	case <-time.After(deadline + slack):
		hang, stacks := true, hx.LibStacks()
		_ = hang
		return viol("hang", fmt.Sprintf("%s with server behaviour %q has not returned %v after its deadline (%v); parked library goroutines:\n%s", c.Wrapper, c.Behaviour, slack, deadline, trunc(strings.Join(stacks, "\n"), 1500)))
	}
	el := time.Since(w0)
	drv.NoteFlush("returned err=%v after %v", callErr, el)
	// did the node confirm the deciding request?
	confirmed := false
	var lastReq *evlog.Rec
	recs := env.Log.Snapshot()
	for i := range recs {
		r := recs[i]
		if r.T < t0 || r.K != "sim.rx" {
			continue
		}
		for _, o := range ops {
			if r.Op == int(o) {
				lastReq = &recs[i]
			}
		}
	}
	nreq := 0
	for _, r := range recs {
		if r.T < t0 {
			continue
		}
		if r.K == "sim.rx" {
			for _, o := range ops {
				if r.Op == int(o) {
					nreq++
				}
			}
		}
	}
	if lastReq != nil {
		for _, r := range recs {
			if r.K == "sim.tx" && r.Op == lastReq.Op && r.Cn == lastReq.Cn && r.Opq == lastReq.Opq && r.T > lastReq.T {
				if r.St == 0 {
					confirmed = true
				}
				// a missing checkpoint document / path is a defined outcome of Load ("no checkpoint")
				if c.Wrapper == "MetadataLoad" && (r.St == cbsim.StKeyNotFound || r.St == cbsim.StSubdocMultiFail) {
					confirmed = true
				}
			}
		}
	}
	if c.Wrapper == "Ping" {
		confirmed = true // a ping needs an answer from every service; judged through its error only
		if c.Behaviour != "ok" && c.Behaviour != "early" && callErr == nil {
			confirmed = false
		}
	}
	res.Events["requests"] = nreq
	res.Sample = map[string]any{"wrapper": c.Wrapper, "behaviour": c.Behaviour, "status": c.Status, "nth": c.Nth, "returned_error": fmt.Sprint(callErr), "elapsed_ms": el.Milliseconds(), "deciding_requests_seen": nreq, "node_confirmed": confirmed}
	if callErr == nil && !confirmed {
		return viol("invented-success", fmt.Sprintf("%s returned success although the node never sent an OK reply to the deciding request (behaviour %q, status 0x%x, %d request(s) seen)", c.Wrapper, c.Behaviour, c.Status, nreq))
	}
	if callErr == nil && c.Wrapper == "GetCollectionIDs" && strings.HasPrefix(string(gotVal), "WRONG") {
		return viol("outcome", fmt.Sprintf("GetCollectionIDs returned success with %s (the node knows c1=8, c2=9; behaviour %q status 0x%x)", gotVal, c.Behaviour, c.Status))
	}
	if callErr == nil && (c.Wrapper == "GetXattrs" || c.Wrapper == "Get") && c.Exists && len(gotVal) == 0 {
		return viol("outcome", fmt.Sprintf("%s returned success with an empty value for an existing document", c.Wrapper))
	}
	if c.Behaviour == "status" && c.Status == 0x01 || (c.Behaviour == "ok" && !c.Exists && (c.Wrapper == "Get" || c.Wrapper == "GetXattrs" || c.Wrapper == "DeleteDocument" || c.Wrapper == "UpsertXattrs" || c.Wrapper == "UpdateDocument")) {
		var kv *gocbcore.KeyValueError
		if callErr == nil || !errors.As(callErr, &kv) || kv.StatusCode != memd.StatusKeyNotFound {
			return viol("error-class", fmt.Sprintf("%s on a missing document: the node answered KEY_ENOENT, the wrapper returned %v (the library branches on the key-not-found class)", c.Wrapper, callErr))
		}
	}
	if c.Behaviour == "ok" && c.Exists && callErr != nil && c.Wrapper != "CreateDocument" {
		return viol("outcome", fmt.Sprintf("%s: the node answered OK promptly, the wrapper returned %v", c.Wrapper, callErr))
	}
	if (c.Behaviour == "late" || c.Behaviour == "never") && c.Nth == 0 {
		// the late completion (if any) must neither block nor kill the process: wait past it
		time.Sleep(400 * time.Millisecond)
	}
	cl.DcpClose()
	cl.Close()
	_ = config.Dcp{}
	return res
}
