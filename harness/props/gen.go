package props

import (
	"encoding/json"
	"math/rand"
	"strconv"
	"strings"
	"time"
)

type HistOpts struct {
	NumVB      int
	PReserved  float64
	PSystem    float64
	PSeqAdv    float64 // probability that a snapshot ends with a seqno-advanced
	PBig       float64
	SkipUntil  int64
	CasAround  bool // CAS values around SkipUntil +-2s
	CasExtreme bool
	Cids       []uint32
	MaxItems   int
	SeqGaps    bool
}

var reservedSamples = []string{"_connector:cbgo:", "_connector:cbgo:g1:checkpoint:3", "_connector:cbgo:x", "_txn:", "_txn:atr-12", "_txn:client-record"}
var nearReserved = []string{"_connector:cbgo", "_connector:cbg:", "connector:cbgo:k", "x_connector:cbgo:k", "_txn", "_tx:", "a_txn:b", "_TXN:x", "_Connector:cbgo:k", "", "_", "_connector:cbgo\x00:", "k\x00bin\xff\xfe"}

func genItem(rng *rand.Rand, o *HistOpts, n int) ItemSpec {
	it := ItemSpec{}
	r := rng.Float64()
	switch {
	case r < o.PSystem:
		it.K = "s"
		it.Sys = uint32([]int{0, 1, 2, 3, 4, 5}[rng.Intn(6)])
		it.Key = []byte("coll" + strconv.Itoa(n))
		it.Cid = uint32(8 + rng.Intn(4))
		return it
	default:
		it.K = []string{"m", "m", "m", "d", "e"}[rng.Intn(5)]
	}
	switch {
	case rng.Float64() < o.PReserved:
		base := reservedSamples[rng.Intn(len(reservedSamples))]
		it.Key = []byte(base + strconv.Itoa(rng.Intn(10)))
		if rng.Intn(3) == 0 {
			it.Key = []byte(base)
		}
	case rng.Intn(6) == 0:
		it.Key = []byte(nearReserved[rng.Intn(len(nearReserved))])
	default:
		it.Key = []byte("k" + strconv.Itoa(n) + "-" + strconv.Itoa(rng.Intn(1000)))
	}
	if it.K == "m" {
		switch {
		case rng.Float64() < o.PBig:
			it.Val = []byte(strings.Repeat("x", 1<<uint(10+rng.Intn(9))))
		case rng.Intn(8) == 0:
			it.Val = []byte{}
		case rng.Intn(8) == 0:
			it.Val = []byte{0, 0xff, 0xfe, 1, 2, 3}
			it.DT = 0
		default:
			it.Val = []byte(`{"n":` + strconv.Itoa(n) + `}`)
			it.DT = 1
		}
		it.Flags = []uint32{0, 1, 50333696, 0xffffffff}[rng.Intn(4)]
		it.Expiry = []uint32{0, 1, 1700000000, 0xffffffff}[rng.Intn(4)]
	}
	it.Rev = []uint64{1, 2, 1 << 40, ^uint64(0)}[rng.Intn(4)]
	switch {
	case o.CasAround && o.SkipUntil != 0:
		d := int64(rng.Intn(5) - 2)
		ns := uint64(rng.Intn(1000000000))
		if rng.Intn(3) == 0 {
			ns = []uint64{0, 1, 999999999}[rng.Intn(3)]
		}
		it.Cas = uint64(o.SkipUntil+d)*1000000000 + ns
	case o.CasExtreme && rng.Intn(3) == 0:
		it.Cas = []uint64{1, 999999999, 1000000000, ^uint64(0), 1 << 63, 1<<63 - 1}[rng.Intn(6)]
	default:
		it.Cas = uint64(time.Now().UnixNano()) + uint64(rng.Intn(1000))
	}
	if len(o.Cids) > 0 {
		it.Cid = o.Cids[rng.Intn(len(o.Cids))]
	}
	return it
}

// genSnap returns the items of one snapshot.
func genSnap(rng *rand.Rand, o *HistOpts, ctr *int) []ItemSpec {
	max := o.MaxItems
	if max == 0 {
		max = 5
	}
	n := 1 + rng.Intn(max)
	if rng.Intn(3) == 0 {
		n = 1
	}
	var out []ItemSpec
	for i := 0; i < n; i++ {
		*ctr++
		out = append(out, genItem(rng, o, *ctr))
	}
	if rng.Float64() < o.PSeqAdv {
		out = append(out, ItemSpec{K: "a"})
	}
	return out
}

func mustJSON(v any) json.RawMessage {
	b, _ := json.Marshal(v)
	return b
}
