package props

import (
	"encoding/json"
	"fmt"
	"math/rand"
	"sort"
	"strings"

	"verif/harness/drv"
)

// C08 — a server-requested rollback is honoured without replaying or skipping.

func c08Spec(rng *rand.Rand, i int) (*SessSpec, string) {
	sp := &SessSpec{NumVB: 1 + rng.Intn(4), Nodes: 1 + rng.Intn(2), AckSeed: rng.Int63(), PNow: 1, Backend: []string{"mem", "cb"}[rng.Intn(2)], Backlog: map[int][][]ItemSpec{},
		PreStore: map[int][4]uint64{}, Rollbacks: map[int]uint64{}, Failover: map[int][][2]uint64{}, RollbackAt: map[int]int{}}
	if rng.Intn(3) == 0 {
		sp.PNow, sp.PDefer = 0.6, 0.3
	}
	o := &HistOpts{NumVB: sp.NumVB, PReserved: 0.08, PSystem: 0.1, PSeqAdv: 0.3, MaxItems: 5}
	ctr := 0
	kind := "rollback"
	nrb := 1 + rng.Intn(sp.NumVB)
	for vb := 0; vb < sp.NumVB; vb++ {
		if vb >= nrb {
			sp.Backlog[vb] = append(sp.Backlog[vb], genSnap(rng, o, &ctr))
			continue
		}
		F := uint64(rng.Intn(30))
		R := uint64(0)
		if F > 0 {
			R = uint64(rng.Intn(int(F) + 1))
		}
		switch rng.Intn(5) {
		case 0:
			R = F
		case 1:
			R = 0
		}
		// history with explicit seqnos; post-rollback stream shapes: empty, only <=F, item exactly at F, mixed kinds
		shape := rng.Intn(5)
		var snaps [][]ItemSpec
		seq := uint64(0)
		limit := F + uint64(3+rng.Intn(10))
		if shape == 0 {
			limit = 0 // empty history beyond R
		}
		if shape == 1 {
			limit = F // nothing above F
		}
		hasF := rng.Intn(2) == 0
		for seq < limit {
			sn := genSnap(rng, o, &ctr)
			var keep []ItemSpec
			for k := range sn {
				step := uint64(1 + rng.Intn(2))
				if hasF && seq < F && seq+step > F {
					step = F - seq
				}
				seq += step
				if !hasF && seq == F {
					seq++
				}
				if seq > limit && limit != 0 {
					break
				}
				sn[k].Seq = seq
				keep = append(keep, sn[k])
			}
			if len(keep) > 0 {
				snaps = append(snaps, keep)
			}
		}
		sp.Backlog[vb] = snaps
		lastKept := uint64(0)
		for _, sn := range snaps {
			for _, it := range sn {
				if it.Seq > lastKept {
					lastKept = it.Seq
				}
			}
		}
		if lastKept < F {
			// the vBucket has reached F (high seqno >= checkpoint) even though this history shows fewer items
			if sp.Highs == nil {
				sp.Highs = map[int]uint64{}
			}
			sp.Highs[vb] = F + uint64(rng.Intn(3))
		}
		// F relative to snapshot boundaries is whatever the generator produced; the stored snapshot is [F,F] or wider
		ss, se := F, F
		if rng.Intn(2) == 0 && F > 1 {
			ss, se = F-1, F+uint64(rng.Intn(3))
		}
		sp.PreStore[vb] = [4]uint64{0x1111 + uint64(vb), F, ss, se}
		sp.Rollbacks[vb] = R
		// failover log of 1..6 entries with arbitrary start seqnos (newest first, non-increasing), incl. equal starts
		n := 1 + rng.Intn(6)
		starts := make([]uint64, n)
		for k := range starts {
			starts[k] = uint64(rng.Intn(int(F) + 6))
			if rng.Intn(4) == 0 {
				starts[k] = R // entry boundary exactly at R
			}
		}
		sort.Slice(starts, func(a, b int) bool { return starts[a] > starts[b] })
		starts[n-1] = 0
		var fl [][2]uint64
		for k, st := range starts {
			fl = append(fl, [2]uint64{0xb000 + uint64(vb)<<8 + uint64(n-k), st})
		}
		sp.Failover[vb] = fl
	}
	if i%12 == 3 {
		// a second rollback to the same R answers the re-open after a transient end, while the position has not moved past
		// F (nothing is acknowledged): the events in (R, F] are streamed a second time and must not be shown again
		vb := 0
		sp.PNow, sp.PDefer = 0, 1
		sp.RollbackAlso = map[int]int{vb: 3}
		sp.Steps = append(sp.Steps, Step{Op: "barrier"}, Step{Op: "end", VB: vb, St: transientStatus[rng.Intn(4)]}, Step{Op: "waitreopen", VB: vb, N: 4})
		kind = "rollback-twice"
	} else if i%12 == 9 {
		// the vBucket fails over once more between the failover-log request and the re-request of the rollback handling:
		// the stream is opened on the newest branch, which the log fetched before does not know
		for vb := 0; vb < nrb; vb++ {
			if sp.FailoverOnLogFetch == nil {
				sp.FailoverOnLogFetch = map[int]int{}
			}
			sp.FailoverOnLogFetch[vb] = 1 + rng.Intn(9)
		}
		kind = "branch-in-flight"
	} else if i%12 == 7 {
		// finite mode: the re-request keeps the end of the original request
		sp.Mode = "finite"
		kind = "rollback-finite"
	}
	if i%6 == 5 {
		// the rollback answers a re-open after a transient end instead of the first open
		vb := 0
		sp.RollbackAt[vb] = 2
		F := sp.PreStore[vb][1]
		_ = F
		// a save before the end (the checkpoint of this open exists), and new events + a save after the rolled-back re-open
		sp.Steps = append(sp.Steps, Step{Op: "barrier"}, Step{Op: "ack", Sel: "all"}, Step{Op: "commit"}, Step{Op: "end", VB: vb, St: 2}, Step{Op: "waitreopen", VB: vb, N: 3},
			Step{Op: "append", VB: vb, Items: []ItemSpec{{K: "m", Key: []byte("after-rollback-1"), Val: []byte("{}")}, {K: "m", Key: []byte("after-rollback-2"), Val: []byte("{}")}}}, Step{Op: "barrier"}, Step{Op: "ack", Sel: "all"}, Step{Op: "commit"})
		kind = "rollback-on-reopen"
	}
	sp.Steps = append(sp.Steps, Step{Op: "barrier"})
	if rng.Intn(2) == 0 {
		vb := rng.Intn(nrb)
		sp.Steps = append(sp.Steps, Step{Op: "append", VB: vb, Items: genSnap(rng, o, &ctr)}, Step{Op: "barrier"})
	}
	sp.Steps = append(sp.Steps, Step{Op: "check"})
	return sp, kind
}

// OracleRollback checks the re-request and the position after a rollback.
func OracleRollback(tr *Trace) ([]Finding, int) {
	var fs []Finding
	n := 0
	for vb, segs := range tr.Segs {
		for i, sg := range segs {
			if !sg.Rollback || i == 0 {
				continue
			}
			prev := segs[i-1]
			R := tr.Spec.Rollbacks[vb]
			n++
			// newest failover entry (log is newest first) whose start <= R
			var wantUUID uint64
			for _, e := range tr.Spec.Failover[vb] {
				if e[1] <= R {
					wantUUID = e[0]
					break
				}
			}
			if sg.Start != R || sg.SnapS != R || sg.SnapE != R {
				fs = append(fs, Finding{"C08", "rerequest", "C08/rerequest/position", fmt.Sprintf("vb %d: rollback to %d answered by a request with start %d snapshot [%d,%d]", vb, R, sg.Start, sg.SnapS, sg.SnapE)})
			}
			if sg.ReqUUID != wantUUID {
				shape := "other"
				fl := tr.Spec.Failover[vb]
				if len(fl) > 0 && sg.ReqUUID == fl[len(fl)-1][0] {
					shape = "oldest-entry"
				} else if len(fl) > 0 && sg.ReqUUID == fl[0][0] {
					shape = "newest-entry"
				}
				fs = append(fs, Finding{"C08", "rerequest", "C08/rerequest/vbuuid/" + shape, fmt.Sprintf("vb %d: rollback to %d with failover log %v re-requested on branch %x, the branch containing %d is %x", vb, R, fl, sg.ReqUUID, R, wantUUID)})
			}
			if sg.End != prev.End {
				fs = append(fs, Finding{"C08", "rerequest", "C08/rerequest/end", fmt.Sprintf("vb %d: end changed from %d to %d across the rollback", vb, prev.End, sg.End)})
			}
			F := sg.FailedSeq
			for _, r := range tr.Log {
				if r.K == "cons.track" && r.VB == vb && r.T > sg.ReqT && r.Seq < F {
					fs = append(fs, Finding{"C08", "position", "C08/position-below-checkpoint", fmt.Sprintf("vb %d: after the rollback the tracked position moved to %d, below the checkpointed position %d (a restart would replay (%d,%d])", vb, r.Seq, F, r.Seq, F)})
					break
				}
			}
			for _, w := range storeWrites(tr) {
				if w.VB == vb && w.T > sg.ReqT && w.Seq < F {
					fs = append(fs, Finding{"C08", "position", "C08/stored-below-checkpoint", fmt.Sprintf("vb %d: after the rollback a checkpoint %d below the previous one (%d) was stored", vb, w.Seq, F)})
					break
				}
			}
		}
	}
	return fs, n
}

func init() {
	drv.Register(&drv.Prop{
		ID: "C08", Level: "exploration", Parallel: 10, Batch: 8, MinConclusive: 40,
		Rule: "each case stores checkpoints F on 1-4 vBuckets, gives them failover logs of 1-6 entries with arbitrary (also equal, also =R) start seqnos and lets the simulated node answer the first stream request (or the re-open after a transient end) with ROLLBACK(R), R<=F incl. R=0 and R=F; " +
			"post-rollback histories: empty, only <=F, an item exactly at F or de-duplicated, mixed kinds incl. system events and seqno-advanced below F. Oracle: decoded second request == (branch of the newest failover entry with start<=R, R, [R,R], same end); " +
			"delivered list == sent items above F (C03 list oracle with catch-up filter); offsets carry the new branch uuid; tracked/stored position never below F; startfail: the re-request answered with an error must end the process. " +
			"Non-trivial: failover log with >=2 entries and >=1 item <=F replayed; distinct = distinct abstract traces",
		Assumptions: []string{"cbsim answers ROLLBACK exactly once per scripted vBucket and then streams from R as a real producer would"},
		Gen: func(seed int64, tier string) []drv.Scenario {
			rng := rand.New(rand.NewSource(seed))
			n := 400
			if tier == "thorough" {
				n = 5000
			}
			var out []drv.Scenario
			for i := 0; i < n; i++ {
				sp, kind := c08Spec(rng, i)
				out = append(out, drv.Scenario{Kind: kind, Seed: seed, Params: mustJSON(sp), TimeoutS: 90})
			}
			nf := 4
			if tier == "thorough" {
				nf = 30
			}
			for i := 0; i < nf; i++ {
				sp, _ := c08Spec(rng, 0)
				sp.RollbackAt = map[int]int{}
				sp.ReqFail = map[int][2]int{0: {2, []int{0x24, 0x84, 0x82}[rng.Intn(3)]}}
				out = append(out, drv.Scenario{Kind: "startfail", Seed: seed, Params: mustJSON(sp), TimeoutS: 90, Solo: true})
			}
			// ... also when the answer to the re-request is "roll back" once more (the history changed again in between)
			xr := rand.New(rand.NewSource(seed*29 + 1))
			for i := 0; i < nf; i++ {
				sp, _ := c08Spec(xr, 0)
				sp.RollbackAt = map[int]int{}
				sp.RollbackAlso = map[int]int{}
				for vb := range sp.Rollbacks {
					sp.RollbackAlso[vb] = 2
				}
				sp.RollbackAlsoLower = i%2 == 1 // ... to the same point, or to an earlier one
				out = append(out, drv.Scenario{Kind: "startfail", Seed: seed, Params: mustJSON(sp), TimeoutS: 90, Solo: true})
			}
			return out
		},
		Run: func(sc drv.Scenario) drv.Result {
			var sp SessSpec
			if err := json.Unmarshal(sc.Params, &sp); err != nil {
				return drv.Result{Verdict: drv.Inconclusive, Detail: err.Error()}
			}
			if sc.Kind == "startfail" {
				drv.NoteFlush("startfail-begin")
			}
			tr := RunSession(&sp)
			if sc.Kind == "startfail" {
				// still here: the client kept running although a vBucket could not be reopened
				answer := fmt.Sprintf("with status 0x%x", sp.ReqFail[0][1])
				if len(sp.RollbackAlso) > 0 {
					answer = "with ROLLBACK again"
				}
				return drv.Result{Verdict: drv.Violated, Clause: "startfail", FindingKey: "C08/startfail-survived", Nontrivial: true, TraceHash: drv.Hash("startfail", fmt.Sprint(sp.ReqFail, sp.RollbackAlso)),
					Detail: fmt.Sprintf("the re-request after ROLLBACK was answered %s, yet start-up went on (start error: %q, deliveries %d)", answer, tr.StartErr, len(tr.Events))}
			}
			fs, n := OracleRollback(tr)
			for _, f := range OracleDelivery(tr) {
				// C08 owns the catch-up clauses of the delivery oracle for rollback streams
				if f.Prop == "C03" && f.Clause == "list" {
					f.Prop, f.Key = "C08", "C08/"+f.Key[4:]
				}
				if f.Prop == "C06" && f.Key == "C06/tuple/vbuuid" {
					f.Prop, f.Key = "C08", "C08/offset-old-vbuuid"
				}
				fs = append(fs, f)
			}
			// what is stored after the rollback names one event of the branch the stream is open on
			for _, f := range OracleTuples(tr) {
				if strings.Contains(f.Key, "/stored") {
					fs = append(fs, Finding{"C08", "stored", "C08/stored-tuple/" + f.Key[strings.LastIndex(f.Key, "/")+1:], f.Detail})
				}
			}
			nt := false
			replayed := 0
			for vb, segs := range tr.Segs {
				for _, sg := range segs {
					if sg.Rollback {
						for _, it := range sg.Items {
							if it.Seq <= sg.FailedSeq {
								replayed++
								if len(sp.Failover[vb]) >= 2 {
									nt = true
								}
							}
						}
					}
				}
			}
			var ex any
			for vb, segs := range tr.Segs {
				for _, sg := range segs {
					if sg.Rollback {
						ex = map[string]any{"vb": vb, "F": sg.FailedSeq, "R": sp.Rollbacks[vb], "failover_log": sp.Failover[vb], "second_request": map[string]any{"vbuuid": sg.ReqUUID, "start": sg.Start, "snapshot": []uint64{sg.SnapS, sg.SnapE}},
							"sent_after_rollback": len(sg.Items), "delivered": seqsOfD(deliveriesOf(tr, sg))}
					}
				}
			}
			sample := map[string]any{"kind": sc.Kind, "rollback_requests_checked": n, "items_replayed_at_or_below_F": replayed, "example": ex}
			r := sessionResult("C08", tr, fs, nt, sample)
			r.Checks = n
			return r
		},
		OnDeath: func(sc drv.Scenario, out drv.ChildOutcome) drv.Result {
			if sc.Kind == "startfail" && drv.IsLibraryPanic(out.Stderr) {
				return drv.Result{Verdict: drv.Held, Nontrivial: true, TraceHash: drv.Hash("startfail", string(sc.Params[:40])), Checks: 1, Events: map[string]int{"process_deaths": 1},
					Sample: map[string]any{"kind": "startfail", "outcome": drv.PanicLine(out.Stderr)}}
			}
			return drv.Result{Verdict: drv.Inconclusive, Detail: "child died: " + drv.PanicLine(out.Stderr), Foreign: []string{"process death: " + drv.PanicLine(out.Stderr)}}
		},
	})
}
