package props

import (
	"encoding/json"
	"fmt"
	"math/rand"
	"strings"
	"time"

	"verif/harness/cbsim"
	"verif/harness/drv"
)

// C03 — per-vBucket delivery complete, ordered, duplicate-free, faithful.

func sessionResult(prop string, tr *Trace, fs []Finding, nontrivial bool, sample any) drv.Result {
	res := drv.Result{Verdict: drv.Held, Events: tr.eventCounts(), TraceHash: tr.abstract(), Nontrivial: nontrivial, Sample: sample, Checks: 1}
	if tr.StartErr != "" {
		return drv.Result{Verdict: drv.Inconclusive, Detail: "session did not start: " + tr.StartErr, Events: map[string]int{}}
	}
	var own []Finding
	for _, f := range fs {
		if f.Prop == prop {
			own = append(own, f)
		} else {
			res.Foreign = append(res.Foreign, f.Prop+":"+f.Key)
		}
	}
	if !tr.CloseOK && !tr.Spec.NoFinalClose && prop != "C13" {
		res.Foreign = append(res.Foreign, "C13: close did not complete")
	}
	if len(own) > 0 {
		res.Verdict = drv.Violated
		res.Clause = own[0].Clause
		res.FindingKey = own[0].Key
		var ds []string
		for i, f := range own {
			if i < 4 {
				ds = append(ds, f.Detail)
			}
		}
		res.Detail = strings.Join(ds, " | ")
		// control-plane timeline (lifecycle callbacks, harness actions, stream requests / ends): enough to diagnose a rare alarm
		var tl []string
		for _, r := range tr.Log {
			if strings.HasPrefix(r.K, "eh.") || strings.HasPrefix(r.K, "ctl.") || strings.HasPrefix(r.K, "hook.") || strings.HasPrefix(r.K, "log.") || r.K == "sim.tx.end" || r.K == "sim.hold" || r.K == "sim.dupstream" || (r.K == "sim.rx" && r.Op == cbsim.OpDcpStreamReq) {
				tl = append(tl, fmt.Sprintf("%d %dms %s", r.T, (r.W-tr.Log[0].W)/1e6, r.String()))
			}
		}
		if len(tl) > 600 {
			tl = append(tl[:300], tl[len(tl)-300:]...)
		}
		res.Witness = map[string]any{"findings": len(own), "spec": tr.Spec, "timeline": tl}
		return res
	}
	if tr.BarrierTimeouts > 0 {
		// something expected was never observed although the oracle found no own violation
		res.Verdict = drv.Inconclusive
		res.Detail = fmt.Sprintf("%d barrier(s) timed out", tr.BarrierTimeouts)
	}
	return res
}

func c03Gen(seed int64, tier string) []drv.Scenario {
	rng := rand.New(rand.NewSource(seed))
	n := 600
	if tier == "thorough" {
		n = 3000
	}
	var out []drv.Scenario
	for i := 0; i < n; i++ {
		sp := c03Spec(rng, i)
		sc := drv.Scenario{Kind: "wire", Seed: seed, Params: mustJSON(sp), TimeoutS: 90}
		if tier == "thorough" && i%5 == 0 {
			sc.Race = true
		}
		if i%7 == 3 {
			sc.GoMaxProcs = []int{1, 2, 4}[rng.Intn(3)]
		}
		if sp.API {
			sc.Solo = true // the HTTP API registers on the process-wide Prometheus registry: one API session per child process
		}
		out = append(out, sc)
	}
	// an ephemeral bucket with rollback mitigation left enabled in the configuration: nothing is ever persisted there, the
	// library runs without the mitigation and delivers everything
	er := rand.New(rand.NewSource(seed*41 + 13))
	for k := 0; k < n/50; k++ {
		sp := c03Spec(er, 1)
		sp.Ephemeral, sp.RollbackMitigation, sp.RMIntervalMs = true, true, 20
		sp.Membership, sp.API, sp.FirstInfo = "", false, [2]int{}
		var steps []Step
		for _, st := range sp.Steps {
			if st.Op == "append" || st.Op == "barrier" {
				steps = append(steps, st)
			}
		}
		sp.Steps = append(steps, Step{Op: "barrier"})
		out = append(out, drv.Scenario{Kind: "wire", Seed: seed, Params: mustJSON(sp), TimeoutS: 90})
	}
	return out
}

func c03Spec(rng *rand.Rand, i int) *SessSpec {
	sp := &SessSpec{NumVB: 1 + rng.Intn(8), Nodes: 1 + rng.Intn(3), Backend: "mem", AckSeed: rng.Int63(), PNow: 1, Backlog: map[int][][]ItemSpec{}}
	if rng.Intn(4) == 0 {
		sp.PNow, sp.PDefer = 0.5, 0.3
	}
	o := &HistOpts{NumVB: sp.NumVB, PReserved: 0.15, PSystem: 0.08, PSeqAdv: 0.15, PBig: 0.02, MaxItems: 6, CasExtreme: rng.Intn(3) == 0}
	if rng.Intn(3) == 0 {
		sp.SkipUntil = time.Now().Unix() - int64(rng.Intn(3))
		o.SkipUntil = sp.SkipUntil
		o.CasAround = true
	}
	switch rng.Intn(4) {
	case 0:
		sp.Colls = map[string]uint32{"c1": 8, "c2": 9, "c3": 10}
		sp.CollNames = []string{"c1", "c2"}
		o.Cids = []uint32{8, 9, 8, 9, 10, 0, 77}
	case 1:
		sp.Colls = map[string]uint32{"c1": 8}
		sp.CollNames = []string{"_default", "c1"}
		o.Cids = []uint32{0, 8, 9}
	}
	sp.Fragment = rng.Intn(5) == 0
	if rng.Intn(6) == 0 {
		sp.SlowConsUs = 200 + rng.Intn(2000)
	}
	ctr := 0
	for vb := 0; vb < sp.NumVB; vb++ {
		for s := 0; s < rng.Intn(4); s++ {
			sp.Backlog[vb] = append(sp.Backlog[vb], genSnap(rng, o, &ctr))
		}
	}
	if rng.Intn(4) == 0 {
		c03AddRollback(rng, sp, o, &ctr)
	}
	live := 2 + rng.Intn(14)
	for k := 0; k < live; k++ {
		vb := rng.Intn(sp.NumVB)
		sp.Steps = append(sp.Steps, Step{Op: "append", VB: vb, Items: genSnap(rng, o, &ctr)})
		if rng.Intn(6) == 0 {
			sp.Steps = append(sp.Steps, Step{Op: "barrier"})
		}
	}
	if len(sp.Rollbacks) == 0 && rng.Intn(3) == 0 {
		// a stream ends with a recoverable status and is re-opened by the library: what the new stream carries is delivered
		// like everything else
		vb := rng.Intn(sp.NumVB)
		sp.Steps = append(sp.Steps, Step{Op: "barrier"}, Step{Op: "end", VB: vb, St: []uint32{2, 3, 4, 5}[rng.Intn(4)]}, Step{Op: "waitreopen", VB: vb, N: 2},
			Step{Op: "append", VB: vb, Items: genSnap(rng, o, &ctr)}, Step{Op: "append", VB: vb, Items: genSnap(rng, o, &ctr)})
	}
	if len(sp.Rollbacks) == 0 && sp.SkipUntil == 0 && i%5 == 2 {
		// a rebalance closes and reopens every stream (from the stored checkpoints: nothing is saved here, so from the start):
		// the reopened streams deliver their whole backlog again, completely and in order
		sp.Membership = "dynamic"
		sp.FirstInfo = [2]int{1, 1}
		sp.API = true
		sp.Steps = append(sp.Steps, Step{Op: "barrier"})
		if len(sp.CollNames) > 0 && i%10 == 2 {
			// the node refuses one collection-id lookup during the re-open: the client either stops (a failed sequence-number
			// query is fatal, C15) or goes on naming the events as before
			sp.Steps = append(sp.Steps, Step{Op: "collfail"})
		}
		sp.Steps = append(sp.Steps, Step{Op: "rebalanceapi"}, Step{Op: "waitrebalance", N: 1},
			Step{Op: "append", VB: rng.Intn(sp.NumVB), Items: genSnap(rng, o, &ctr)})
	}
	sp.Steps = append(sp.Steps, Step{Op: "barrier"})
	return sp
}

func init() {
	drv.Register(&drv.Prop{
		ID: "C03", Level: "exploration", Parallel: 10, Batch: 8, MinConclusive: 50,
		Rule: "each case is a seed-generated multi-vBucket history (backlog snapshots + live snapshots; mutations, deletions, expirations, system events, seqno-advanced; reserved-prefix and near-miss keys; " +
			"CAS around skipUntil; collection ids listed/unlisted; 1-3 nodes; TCP fragmentation; slow consumer) streamed to the real client over the wire; oracle: per stream, the delivered list equals the filtered sent list " +
			"(exact, O(n) by unique (vb,seqno)) and every field / collection name / event time / offset equals the prescribed function of the sent item. " +
			"Non-trivial: >=1 filtered item and >=2 snapshots on some vBucket; distinct = distinct abstract traces (tick-ordered record kinds with vBucket ids)",
		Assumptions: []string{"cbsim imitates the DCP producer; order across vBuckets is not asserted", "events sent after the client itself closed a stream may be dropped (prefix rule)"},
		Gen:         c03Gen,
		Run: func(sc drv.Scenario) drv.Result {
			var sp SessSpec
			if err := json.Unmarshal(sc.Params, &sp); err != nil {
				return drv.Result{Verdict: drv.Inconclusive, Detail: err.Error()}
			}
			tr := RunSession(&sp)
			fs := OracleDelivery(tr)
			nt := false
			filtered, sent := 0, 0
			for _, segs := range tr.Segs {
				for _, sg := range segs {
					marks := map[[2]uint64]bool{}
					f := 0
					for _, it := range sg.Items {
						marks[[2]uint64{it.MarkS, it.MarkE}] = true
						sent++
						if isDoc(it.Kind) && (reservedKey([]byte(it.Key)) || (sp.SkipUntil != 0 && int64(it.Cas/1000000000) < sp.SkipUntil)) {
							f++
						}
					}
					filtered += f
					if f >= 1 && len(marks) >= 2 {
						nt = true
					}
				}
			}
			sample := map[string]any{"vbuckets": sp.NumVB, "nodes": sp.Nodes, "items_sent": sent, "filtered_doc_items": filtered, "delivered": len(tr.Events),
				"skip_until": sp.SkipUntil, "collections": sp.CollNames, "example_stream": exampleStream(tr)}
			r := sessionResult("C03", tr, fs, nt, sample)
			r.Checks = len(tr.Events)
			return r
		},
		OnDeath: func(sc drv.Scenario, out drv.ChildOutcome) drv.Result {
			for _, nt := range out.Notes {
				if strings.Contains(nt, "collfail armed") && drv.IsLibraryPanic(out.Stderr) && strings.Contains(drv.PanicLine(out.Stderr), "collection not found") {
					// the refused lookup was one the re-open depends on (collection-aware sequence numbers): stopping is the
					// documented reaction (C15), nothing was delivered wrongly
					return drv.Result{Verdict: drv.Held, Checks: 1, TraceHash: drv.Hash("wire", "collfail-failstop"), Events: map[string]int{"fail_stop": 1},
						Sample: map[string]any{"outcome": "fail-stop on a refused collection-id lookup during the re-open: " + drv.PanicLine(out.Stderr)}}
				}
			}
			if drv.IsLibraryPanic(out.Stderr) {
				return drv.Result{Verdict: drv.Violated, Clause: "death", FindingKey: "C03/process-death", Detail: "process died while streaming a well-formed history (deliveries missing): " + drv.PanicLine(out.Stderr), Witness: out.Stderr}
			}
			return drv.Result{Verdict: drv.Inconclusive, Detail: "child ended: " + drv.PanicLine(out.Stderr)}
		},
	})
}

func exampleStream(tr *Trace) any {
	for vb, segs := range tr.Segs {
		for _, sg := range segs {
			if len(sg.Items) >= 3 {
				var s []string
				for i, it := range sg.Items {
					if i >= 8 {
						break
					}
					s = append(s, fmt.Sprintf("%c#%d[%d,%d]%q", it.Kind, it.Seq, it.MarkS, it.MarkE, trunc(it.Key, 24)))
				}
				return map[string]any{"vb": vb, "request_start": sg.Start, "sent": s, "delivered_seqnos": seqsOfD(deliveriesOf(tr, sg))}
			}
		}
	}
	return nil
}

func trunc(s string, n int) string {
	if len(s) > n {
		return s[:n]
	}
	return s
}

var _ = cbsim.KMutation

// c03AddRollback turns one vBucket into a rollback case: a stored checkpoint at F, a history with
// explicit seqnos (with or without an item exactly at F - de-duplication removes it) and a server
// that answers the first request with ROLLBACK(R), R <= F.
func c03AddRollback(rng *rand.Rand, sp *SessSpec, o *HistOpts, ctr *int) {
	vb := rng.Intn(sp.NumVB)
	F := uint64(5 + rng.Intn(20))
	R := uint64(rng.Intn(int(F) + 1))
	if rng.Intn(4) == 0 {
		R = F
	}
	var snaps [][]ItemSpec
	seq := uint64(0)
	hasF := rng.Intn(2) == 0
	for seq < F+uint64(3+rng.Intn(10)) {
		sn := genSnap(rng, o, ctr)
		var keep []ItemSpec
		for i := range sn {
			step := uint64(1 + rng.Intn(2))
			if hasF && seq < F && seq+step > F {
				step = F - seq // land exactly on F
			}
			seq += step
			if !hasF && seq == F {
				seq++
			}
			sn[i].Seq = seq
			keep = append(keep, sn[i])
		}
		snaps = append(snaps, keep)
	}
	sp.Backlog[vb] = snaps
	if sp.PreStore == nil {
		sp.PreStore = map[int][4]uint64{}
	}
	if sp.Rollbacks == nil {
		sp.Rollbacks = map[int]uint64{}
		sp.Failover = map[int][][2]uint64{}
	}
	uu := uint64(0x1111)
	sp.PreStore[vb] = [4]uint64{uu, F, F, F}
	sp.Rollbacks[vb] = R
	sp.Failover[vb] = [][2]uint64{{0xbbb, R + 1}, {0xaaa, 0}}
	if rng.Intn(2) == 0 {
		sp.Failover[vb] = [][2]uint64{{0xccc, R}, {0xbbb, R / 2}, {0xaaa, 0}}
	}
}
