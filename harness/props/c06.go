package props

import (
	"encoding/json"
	"fmt"
	"math/rand"
	"time"

	"verif/harness/cbsim"
	"verif/harness/drv"
	"verif/harness/hx"
)

// C06 — every offset handed out or persisted is a valid, untorn resume point; ill-formed items stop the client.

type c06Ill struct {
	Mode string `json:"mode"` // below above nomarker
	Kind string `json:"kind"` // m d e s
	Off  uint64 `json:"off"`
}

// c06TearSpec: saves from another goroutine race with a dense stream of acknowledgements, every event in a snapshot of
// its own, so that consecutive positions differ in every field: a stored tuple mixed from two events would show.
func c06TearSpec(rng *rand.Rand, i int) *SessSpec { return c06TearSpecN(rng, i, 300) }

func c06TearSpecN(rng *rand.Rand, i int, events int) *SessSpec {
	sp := &SessSpec{NumVB: 1 + rng.Intn(2), Nodes: 1, AckSeed: rng.Int63(), Backlog: map[int][][]ItemSpec{}, Backend: "mem", PNow: 1}
	n := 0
	sp.Steps = append(sp.Steps, Step{Op: "barrier"}, Step{Op: "commitstorm"})
	for k := 0; k < events; k++ {
		n++
		sp.Steps = append(sp.Steps, Step{Op: "append", VB: rng.Intn(sp.NumVB), Items: []ItemSpec{{K: "m", Key: []byte(fmt.Sprintf("t%d", n)), Val: []byte("{}")}}})
	}
	sp.Steps = append(sp.Steps, Step{Op: "barrier"}, Step{Op: "stopstorm"}, Step{Op: "commit"})
	return sp
}

func c06MitigatedSpec(rng *rand.Rand, j int) *SessSpec {
	sp := &SessSpec{NumVB: 1 + rng.Intn(3), Nodes: 2, Replicas: 1, AckSeed: rng.Int63(), Backend: []string{"mem", "cb"}[j%2], Backlog: map[int][][]ItemSpec{}, RollbackMitigation: true,
		RMIntervalMs: 10 + rng.Intn(10), ObserveInit: map[string][2]uint64{}, PNow: 0.5, PDefer: 0.5}
	o := &HistOpts{NumVB: sp.NumVB, PSystem: 0.05, PSeqAdv: 0.15, MaxItems: 4}
	ctr := 0
	for vb := 0; vb < sp.NumVB; vb++ {
		sp.Backlog[vb] = append(sp.Backlog[vb], genSnap(rng, o, &ctr))
		for ix := 0; ix < 2; ix++ {
			sp.ObserveInit[fmt.Sprintf("%d:%d", vb, ix)] = [2]uint64{0, 1000}
		}
	}
	vb := rng.Intn(sp.NumVB)
	sp.GatedVB = vb
	sp.Steps = []Step{{Op: "barrier"}, {Op: "append", VB: vb, Items: genSnap(rng, o, &ctr)}, {Op: "barrier"},
		{Op: "observe", VB: vb, N: 0, St: 1000, Ms: 0xbeef}, {Op: "observe", VB: vb, N: 1, St: 1000, Ms: 0xbeef}, {Op: "waitrounds", VB: vb, N: 3},
		{Op: "append", VB: vb, Items: genSnap(rng, o, &ctr)}, {Op: "append", VB: vb, Items: genSnap(rng, o, &ctr)}, {Op: "barrier"}, {Op: "ack", Sel: "all"}, {Op: "commit"}, {Op: "barrier"}}
	return sp
}

func c06MitigatedLoaded(rng *rand.Rand, j int) *SessSpec {
	sp := &SessSpec{NumVB: 2, Nodes: 2, Replicas: 1, AckSeed: rng.Int63(), Backend: "file", Backlog: map[int][][]ItemSpec{}, RollbackMitigation: true,
		RMIntervalMs: 10 + rng.Intn(10), ObserveInit: map[string][2]uint64{}, PNow: 1, PreStore: map[int][4]uint64{}}
	base := uint64(30 + rng.Intn(10))
	var sn []ItemSpec
	for k := 0; k < 8; k++ {
		sn = append(sn, ItemSpec{K: "m", Key: []byte(fmt.Sprintf("ml%d-%d", j, k)), Val: []byte("{}"), Seq: base + uint64(k)})
	}
	sp.Backlog[0] = [][]ItemSpec{sn}
	mid := base + 2 + uint64(rng.Intn(3))
	sp.PreStore[0] = [4]uint64{0xabc000, mid, base, base + 7}
	sp.PreStore[1] = [4]uint64{0xabc001, 0, 0, 0}
	sp.Backlog[1] = [][]ItemSpec{{{K: "m", Key: []byte(fmt.Sprintf("mo%d", j)), Val: []byte("{}")}}}
	for ix := 0; ix < 2; ix++ {
		sp.ObserveInit[fmt.Sprintf("0:%d", ix)] = [2]uint64{0, base - 5} // persisted lies below the resumed position
		sp.ObserveInit[fmt.Sprintf("1:%d", ix)] = [2]uint64{0, 1000}
	}
	sp.GatedVB = 0
	sp.Steps = []Step{{Op: "waitrounds", VB: 0, N: 3}, {Op: "append", VB: 1, Items: []ItemSpec{{K: "m", Key: []byte("mo-live"), Val: []byte("{}")}}}, {Op: "sleep", Ms: 150}, {Op: "commit"},
		{Op: "observe", VB: 0, N: 0, St: 1000}, {Op: "observe", VB: 0, N: 1, St: 1000}, {Op: "barrier"}, {Op: "ack", Sel: "all"}, {Op: "commit"}}
	return sp
}

func c06Spec(rng *rand.Rand, i int) *SessSpec {
	sp := &SessSpec{NumVB: 1 + rng.Intn(6), Nodes: 1 + rng.Intn(2), AckSeed: rng.Int63(), Backlog: map[int][][]ItemSpec{}}
	sp.Backend = []string{"mem", "cb", "mem", "cb", "file"}[rng.Intn(5)]
	sp.PNow, sp.PDefer = 0.3, 0.6
	if rng.Intn(3) == 0 {
		sp.Auto, sp.IntervalMs = true, 2+rng.Intn(10)
	}
	o := &HistOpts{NumVB: sp.NumVB, PReserved: 0.1, PSystem: 0.08, PSeqAdv: 0.25, MaxItems: 5}
	ctr := 0
	for vb := 0; vb < sp.NumVB; vb++ {
		for s := 0; s < rng.Intn(3); s++ {
			sp.Backlog[vb] = append(sp.Backlog[vb], genSnap(rng, o, &ctr))
		}
	}
	if rng.Intn(4) == 0 {
		c03AddRollback(rng, sp, o, &ctr)
	}
	if len(sp.PreStore) == 0 && rng.Intn(4) == 0 {
		// first start without any checkpoint, auto-reset latest, multi-entry failover logs
		sp.AutoReset = "latest"
		sp.Failover = map[int][][2]uint64{}
		for vb := 0; vb < sp.NumVB; vb++ {
			if rng.Intn(3) != 0 {
				sp.Failover[vb] = [][2]uint64{{0xc3 + uint64(vb)<<8, 3}, {0xb2 + uint64(vb)<<8, 1}, {0xa1 + uint64(vb)<<8, 0}}
			}
		}
		sp.Steps = append(sp.Steps, Step{Op: "commit"})
	} else if rng.Intn(3) == 0 {
		// resume mid-snapshot: checkpoint inside a multi-item backlog snapshot of explicit seqnos
		vb := rng.Intn(sp.NumVB)
		if _, rb := sp.Rollbacks[vb]; !rb {
			var sn []ItemSpec
			base := uint64(10 + rng.Intn(5))
			for k := 0; k < 4+rng.Intn(4); k++ {
				ctr++
				it := genItem(rng, o, ctr)
				it.Seq = base + uint64(k)
				sn = append(sn, it)
			}
			sp.Backlog[vb] = [][]ItemSpec{sn}
			mid := base + uint64(1+rng.Intn(len(sn)-2))
			if sp.PreStore == nil {
				sp.PreStore = map[int][4]uint64{}
			}
			sp.PreStore[vb] = [4]uint64{0xabc000 + uint64(vb), mid, base, base + uint64(len(sn)-1)}
		}
	}
	live := 4 + rng.Intn(16)
	for k := 0; k < live; k++ {
		sp.Steps = append(sp.Steps, Step{Op: "append", VB: rng.Intn(sp.NumVB), Items: genSnap(rng, o, &ctr)})
		switch rng.Intn(8) {
		case 0:
			sp.Steps = append(sp.Steps, Step{Op: "barrier"})
		case 1, 2:
			sp.Steps = append(sp.Steps, Step{Op: "ack", Sel: []string{"oldest", "newest", "random"}[rng.Intn(3)], N: 1 + rng.Intn(3)})
		case 3:
			sp.Steps = append(sp.Steps, Step{Op: "commit"})
		case 4:
			sp.Steps = append(sp.Steps, Step{Op: "reack"})
		}
	}
	// a stream that ends with a recoverable status is re-opened on the same observer; what changes across the re-open must
	// show in the offsets: the branch (fail-over before the end) or the snapshot layout (the rest of an interrupted snapshot
	// is announced under a marker of its own that ends where the interrupted one ended)
	var plain []int
	for vb := 0; vb < sp.NumVB; vb++ {
		if _, rb := sp.Rollbacks[vb]; !rb {
			plain = append(plain, vb)
		}
	}
	if len(plain) > 0 && sp.AutoReset == "" {
		vb := plain[rng.Intn(len(plain))]
		doc := func() ItemSpec {
			ctr++
			return ItemSpec{K: "m", Key: []byte(fmt.Sprintf("ro%d", ctr)), Val: []byte("{}")}
		}
		switch rng.Intn(4) {
		case 0:
			sp.Steps = append(sp.Steps, Step{Op: "barrier"}, Step{Op: "ack", Sel: "random", N: 2}, Step{Op: "failover", VB: vb, N: 1 + rng.Intn(9)}, Step{Op: "end", VB: vb, St: transientStatus[rng.Intn(4)]},
				Step{Op: "waitreopen", VB: vb, N: 2}, Step{Op: "append", VB: vb, Items: []ItemSpec{doc(), doc()}}, Step{Op: "barrier"}, Step{Op: "ack", Sel: "newest", N: 2}, Step{Op: "commit"})
		case 1:
			extra := 1 + rng.Intn(3)
			first := doc()
			first.SnapExtra = extra
			rest := []ItemSpec{}
			for k := 0; k < extra; k++ {
				rest = append(rest, doc())
			}
			sp.Steps = append(sp.Steps, Step{Op: "barrier"}, Step{Op: "append", VB: vb, Items: []ItemSpec{first, doc(), doc()}}, Step{Op: "barrier"}, Step{Op: "ack", Sel: "newest", N: 1},
				Step{Op: "end", VB: vb, St: transientStatus[rng.Intn(4)]}, Step{Op: "waitreopen", VB: vb, N: 2}, Step{Op: "append", VB: vb, Items: rest}, Step{Op: "barrier"}, Step{Op: "ack", Sel: "newest", N: 2}, Step{Op: "commit"})
		}
	}
	// late acknowledgements: everything has arrived (several newer markers), then old events are acknowledged
	sp.Steps = append(sp.Steps, Step{Op: "barrier"}, Step{Op: "ack", Sel: "random", N: 2 + rng.Intn(4)}, Step{Op: "commit"},
		Step{Op: "ack", Sel: "oldest", N: 3}, Step{Op: "commit"}, Step{Op: "barrier"})
	return sp
}

func init() {
	drv.Register(&drv.Prop{
		ID: "C06", Level: "exploration", Parallel: 10, Batch: 8, MinConclusive: 50,
		Rule: "sessions over generated snapshot layouts (singletons, multi-item, back-to-back, resumed mid-snapshot, seqno-advanced closing a snapshot, rollback changing the branch uuid) with deferred, random-order, repeated and late " +
			"acknowledgements, explicit and periodic saves at random points, couchbase-xattr / file / custom back ends; oracle: every delivered, tracked and stored (vbuuid, seq, snapStart, snapEnd) is the tuple of ONE sent item under its announced marker " +
			"and the stream's branch uuid (or a resume tuple), start<=seq<=end, and no published offset/snapshot object changes afterwards (immutability shadow). " +
			"illformed: an item outside its announced snapshot (below / above / before any marker; mutation, deletion, expiration, system event) must end the process undelivered. " +
			"Non-trivial: an acknowledgement issued after a newer marker of the same vBucket was sent; distinct = distinct abstract traces",
		Assumptions: []string{"cbsim announces markers as real DCP producers do; resume tuples loaded from the store are legal by definition"},
		Gen: func(seed int64, tier string) []drv.Scenario {
			rng := rand.New(rand.NewSource(seed))
			n := 500
			if tier == "thorough" {
				n = 6000
			}
			var out []drv.Scenario
			for i := 0; i < n; i++ {
				sc := drv.Scenario{Kind: "session", Seed: seed, Params: mustJSON(c06Spec(rng, i)), TimeoutS: 90}
				if tier == "thorough" && i%5 == 0 {
					sc.Race = true
				}
				out = append(out, sc)
			}
			nt := 6
			if tier == "thorough" {
				nt = 60
			}
			for i := 0; i < nt; i++ {
				out = append(out, drv.Scenario{Kind: "tear", Seed: seed, Params: mustJSON(c06TearSpec(rng, i)), TimeoutS: 90, Solo: true})
			}
			// more of them on fewer / more processors (own random source): the mixture is a genuine race, seen only when a
			// Commit() reads the entry while an acknowledgement rewrites it
			tr2 := rand.New(rand.NewSource(seed*101 + 31))
			for i := 0; i < 2*nt; i++ {
				out = append(out, drv.Scenario{Kind: "tear", Seed: seed, Params: mustJSON(c06TearSpecN(tr2, i, 2500)), TimeoutS: 120, Solo: true, GoMaxProcs: []int{2, 4, 8, 16}[i%4]})
			}
			ills := []c06Ill{}
			for _, m := range []string{"below", "above", "nomarker"} {
				for _, k := range []string{"m", "d", "e", "s"} {
					ills = append(ills, c06Ill{Mode: m, Kind: k, Off: uint64(1 + rng.Intn(5))})
				}
			}
			if tier != "thorough" {
				ills = ills[:0]
				for _, m := range []string{"below", "above", "nomarker"} {
					ills = append(ills, c06Ill{Mode: m, Kind: "m", Off: 1}, c06Ill{Mode: m, Kind: []string{"d", "e", "s"}[rng.Intn(3)], Off: uint64(1 + rng.Intn(5))})
				}
			}
			for _, il := range ills {
				out = append(out, drv.Scenario{Kind: "illformed", Seed: seed, Params: mustJSON(il), Solo: true, TimeoutS: 60})
			}
			// rollback mitigation on: the copies report another branch (a fail-over the observation sees before the stream does)
			// while the stream opened on the old branch keeps delivering; offsets carry the branch of the stream
			xr := rand.New(rand.NewSource(seed*17 + 9))
			for j := 0; j < n/50; j++ {
				out = append(out, drv.Scenario{Kind: "session", Seed: seed, Params: mustJSON(c06MitigatedSpec(xr, j)), TimeoutS: 90})
			}
			// ... and a vBucket resumed from a checkpoint that lies ahead of what the copies report persisted (a restart after
			// a fail-over onto a node whose persistence lags): its events wait, a save triggered by another vBucket writes the
			// whole file - the resumed position goes back into it unchanged
			for j := 0; j < n/100; j++ {
				out = append(out, drv.Scenario{Kind: "session", Seed: seed, Params: mustJSON(c06MitigatedLoaded(xr, j)), TimeoutS: 90})
			}
			return out
		},
		Run: func(sc drv.Scenario) drv.Result {
			if sc.Kind == "illformed" {
				return c06RunIll(sc)
			}
			var sp SessSpec
			if err := json.Unmarshal(sc.Params, &sp); err != nil {
				return drv.Result{Verdict: drv.Inconclusive, Detail: err.Error()}
			}
			tr := RunSession(&sp)
			fs := append(OracleDelivery(tr), OracleTuples(tr)...)
			// non-trivial: ack after a newer marker
			nt := false
			lastMark := map[int]int64{}
			delivT := map[[2]uint64]int64{}
			for _, r := range tr.Log {
				switch r.K {
				case "sim.tx.marker":
					lastMark[r.VB] = r.T
				case "cons.deliver.call":
					delivT[[2]uint64{uint64(r.VB), r.Seq}] = r.T
				case "cons.ack.call":
					if lastMark[r.VB] > delivT[[2]uint64{uint64(r.VB), r.Seq}] {
						nt = true
					}
				}
			}
			stored := tr.count("md.write") + tr.count("sim.xattrwrite")
			sample := map[string]any{"backend": sp.Backend, "vbuckets": sp.NumVB, "delivered": len(tr.Events), "tracked": len(tr.Tracks), "stored_writes": stored,
				"acks": tr.count("cons.ack.call"), "late_ack_across_marker": nt, "rollbacks": sp.Rollbacks, "resume_points": sp.PreStore, "example_stream": exampleStream(tr)}
			r := sessionResult("C06", tr, fs, nt, sample)
			r.Checks = len(tr.Events) + len(tr.Tracks) + stored
			return r
		},
		OnDeath: func(sc drv.Scenario, out drv.ChildOutcome) drv.Result {
			if sc.Kind == "illformed" {
				var il c06Ill
				_ = json.Unmarshal(sc.Params, &il)
				base := drv.Result{Nontrivial: true, TraceHash: drv.Hash("ill", il.Mode, il.Kind), Checks: 1, Events: map[string]int{"process_deaths": 1},
					Sample: map[string]any{"illformed": il, "outcome": drv.PanicLine(out.Stderr), "notes": out.Notes}}
				if !drv.IsLibraryPanic(out.Stderr) {
					base.Verdict, base.Detail = drv.Inconclusive, "child ended without panic: "+drv.PanicLine(out.Stderr)
					return base
				}
				sent := false
				for _, n := range out.Notes {
					if n == "illformed-sent" {
						sent = true
					}
					if len(n) > 9 && n[:9] == "delivered" {
						base.Verdict, base.Clause, base.FindingKey = drv.Violated, "illformed-delivered", "C06/illformed-delivered"
						base.Detail = "the ill-formed item was delivered before the process died: " + n
						return base
					}
				}
				if !sent {
					base.Verdict, base.Detail = drv.Inconclusive, "process died before the ill-formed item was sent: "+drv.PanicLine(out.Stderr)
					return base
				}
				base.Verdict = drv.Held
				return base
			}
			return drv.Result{Verdict: drv.Inconclusive, Detail: "child died: " + drv.PanicLine(out.Stderr), Foreign: []string{"process death in a well-formed session: " + drv.PanicLine(out.Stderr)}}
		},
	})
}

func c06RunIll(sc drv.Scenario) drv.Result {
	var il c06Ill
	_ = json.Unmarshal(sc.Params, &il)
	env, err := hx.NewEnv(hx.EnvOpts{NumVB: 2})
	if err != nil {
		return drv.Result{Verdict: drv.Inconclusive, Detail: err.Error()}
	}
	defer env.Close()
	cons := &hx.Consumer{Log: env.Log}
	illSeq := uint64(0)
	cons.OnEvent = func(d *hx.Delivered) {
		if d.VB == 0 && d.Seq == illSeq && illSeq != 0 {
			drv.NoteFlush("delivered vb=%d seq=%d offset=[%d,%d]", d.VB, d.Seq, d.Snap.StartSeqNo, d.Snap.EndSeqNo)
		}
		d.Ack()
	}
	if il.Mode != "nomarker" {
		env.Sim.Append(0, []cbsim.Item{{Kind: cbsim.KMutation, Key: []byte("a"), SeqNo: 10}, {Kind: cbsim.KMutation, Key: []byte("b"), SeqNo: 11}, {Kind: cbsim.KMutation, Key: []byte("c"), SeqNo: 12}})
	}
	full, err := env.StartFull(env.BaseConfig(), hx.FullOpts{Consumer: cons, Metadata: hx.NewMemMetadata(env.Log)})
	if err != nil {
		return drv.Result{Verdict: drv.Inconclusive, Detail: err.Error()}
	}
	if il.Mode != "nomarker" && !hx.WaitFor(5*time.Second, func() bool { return cons.Count() == 3 }) {
		return drv.Result{Verdict: drv.Inconclusive, Detail: "well-formed prefix not delivered"}
	}
	switch il.Mode {
	case "below":
		illSeq = 10 - il.Off
	case "above":
		illSeq = 12 + il.Off
	default:
		illSeq = il.Off
	}
	it := cbsim.Item{Key: []byte("ill"), SeqNo: illSeq, Cas: uint64(time.Now().UnixNano()), RevNo: 1}
	switch il.Kind {
	case "m":
		it.Kind = cbsim.KMutation
	case "d":
		it.Kind = cbsim.KDeletion
	case "e":
		it.Kind = cbsim.KExpiration
	default:
		it.Kind = cbsim.KSystem
		it.Cid = 9
	}
	drv.NoteFlush("illformed-sent")
	n := env.Sim.SendRaw(0, it)
	if n == 0 {
		return drv.Result{Verdict: drv.Inconclusive, Detail: "no open stream to send on"}
	}
	time.Sleep(1500 * time.Millisecond)
	// still alive: the client did not stop
	delivered := false
	for _, e := range cons.Events() {
		if e.VB == 0 && e.Seq == illSeq {
			delivered = true
		}
	}
	_ = full
	clause := "illformed-survived"
	if delivered {
		clause = "illformed-delivered"
	}
	return drv.Result{Verdict: drv.Violated, Clause: clause, FindingKey: "C06/" + clause, Nontrivial: true, TraceHash: drv.Hash("ill", il.Mode, il.Kind), Checks: 1,
		Detail: fmt.Sprintf("item kind %s seqno %d sent outside its announced snapshot (mode %s): process still running after 1.5 s, delivered=%v", il.Kind, illSeq, il.Mode, delivered),
		Sample: map[string]any{"illformed": il}}
}
