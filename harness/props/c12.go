package props

import (
	"encoding/json"
	"fmt"
	"math/rand"
	"strings"
	"time"
	"verif/harness/cbsim"

	"verif/harness/drv"
)

// C12 — stream ends are recovered, counted and terminate the client correctly.

var transientStatus = []uint32{2, 3, 4, 5} // state changed, disconnected, too slow, backfill failed
var finalStatus = []uint32{0, 1, 7, 6, 99} // ok, closed, filter empty, lost privileges, unknown

func isTransient(st int) bool { return st >= 2 && st <= 5 }

func c12Spec(rng *rand.Rand, i int) (*SessSpec, string) {
	sp := &SessSpec{NumVB: 2 + rng.Intn(5), Nodes: 1 + rng.Intn(2), AckSeed: rng.Int63(), PNow: 0.7, PDefer: 0.2, Backend: "mem", Backlog: map[int][][]ItemSpec{}, API: true}
	o := &HistOpts{NumVB: sp.NumVB, PReserved: 0.05, PSystem: 0.05, PSeqAdv: 0.1, MaxItems: 4}
	ctr := 0
	for vb := 0; vb < sp.NumVB; vb++ {
		sp.Backlog[vb] = append(sp.Backlog[vb], genSnap(rng, o, &ctr))
	}
	kind := []string{"mixed", "mixed", "allfinal", "finite", "socket", "hold"}[i%6]
	if i%24 >= 18 {
		kind = []string{"open-window", "rebalanced", "finite-complete", "end-in-rebalance", "reopen-vs-rebalance", []string{"retry-reopen", "end-behind-reopen"}[(i/24)%2]}[i%24-18]
	}
	reqs := map[int]int{}
	for vb := 0; vb < sp.NumVB; vb++ {
		reqs[vb] = 1
	}
	finally := map[int]bool{}
	sp.Steps = append(sp.Steps, Step{Op: "barrier"}, Step{Op: "metrics"})
	transient := func(vb int) {
		sp.Steps = append(sp.Steps, Step{Op: "end", VB: vb, St: transientStatus[rng.Intn(4)]})
		reqs[vb]++
		sp.Steps = append(sp.Steps, Step{Op: "waitreopen", VB: vb, N: reqs[vb]}, Step{Op: "append", VB: vb, Items: genSnap(rng, o, &ctr)}, Step{Op: "barrier"})
	}
	final := func(vb int) {
		sp.Steps = append(sp.Steps, Step{Op: "end", VB: vb, St: finalStatus[rng.Intn(len(finalStatus))]}, Step{Op: "sleep", Ms: 15})
		finally[vb] = true
	}
	switch kind {
	case "open-window":
		// a transient end of vBucket 0 arrives while Open() has not finished: the stream request of the last vBucket is
		// still unanswered. vBucket 0 must be requested again and keep being streamed.
		last := sp.NumVB - 1
		sp.ReqHold = map[int]int{last: 1}
		if rng.Intn(3) == 0 {
			// ... or a final end in that window: it is counted, the vBucket is not requested again
			sp.StartSteps = []Step{{Op: "waithold", N: 1}, {Op: "waitopen", VB: 0}, {Op: "end", VB: 0, St: finalStatus[rng.Intn(len(finalStatus))]}, {Op: "sleep", Ms: 40}, {Op: "releasereq"}}
			sp.Steps = []Step{{Op: "barrier"}, {Op: "metrics"}, {Op: "append", VB: 1, Items: genSnap(rng, o, &ctr)}, {Op: "barrier"}, {Op: "metrics"}, {Op: "waitstop", Ms: 150}}
			break
		}
		sp.StartSteps = []Step{{Op: "waithold", N: 1}, {Op: "waitopen", VB: 0}, {Op: "end", VB: 0, St: transientStatus[rng.Intn(4)]}, {Op: "waitreopen", VB: 0, N: 2}, {Op: "releasereq"}}
		reqs[0] = 2
		sp.Steps = []Step{{Op: "barrier"}, {Op: "metrics"}, {Op: "append", VB: 0, Items: genSnap(rng, o, &ctr)}, {Op: "barrier"}, {Op: "metrics"}, {Op: "waitstop", Ms: 150}}
	case "rebalanced":
		// after a rebalance (close and reopen of the same range) transient ends are still recovered and nothing stops the client
		sp.Membership = "dynamic"
		sp.FirstInfo = [2]int{1, 1}
		sp.Steps = append(sp.Steps, Step{Op: "rebalanceapi"}, Step{Op: "waitrebalance", N: 1}, Step{Op: "barrier"})
		for vb := 0; vb < sp.NumVB; vb++ {
			reqs[vb] = 2
		}
		for k := 0; k < 1+rng.Intn(3); k++ {
			transient(rng.Intn(sp.NumVB))
		}
		if rng.Intn(2) == 0 {
			// every vBucket has a transient end: the count must not reach zero
			for vb := 0; vb < sp.NumVB; vb++ {
				transient(vb)
			}
		}
		sp.Steps = append(sp.Steps, Step{Op: "barrier"}, Step{Op: "metrics"}, Step{Op: "waitstop", Ms: 150})
	case "end-behind-reopen":
		// the re-opened stream is ended transiently again right behind the node's answer, before the client's re-open call
		// has returned: this end, too, is followed by a re-open
		vb := rng.Intn(sp.NumVB)
		sp.EndBehindReq = map[int][2]int{vb: {2, int(transientStatus[rng.Intn(4)])}}
		sp.Steps = append(sp.Steps, Step{Op: "end", VB: vb, St: transientStatus[rng.Intn(4)]}, Step{Op: "waitreopen", VB: vb, N: 3, Ms: 4000}, Step{Op: "append", VB: vb, Items: genSnap(rng, o, &ctr)},
			Step{Op: "barrier"}, Step{Op: "metrics"}, Step{Op: "waitstop", Ms: 150})
	case "retry-reopen":
		// the first re-open attempt after a transient end is refused; during the library's 1 s back-off the consumer settles
		// further events (and saves); the second attempt must start from the position tracked THEN
		sp.PNow, sp.PDefer = 0, 1
		vb := rng.Intn(sp.NumVB)
		sp.ReqFail = map[int][2]int{vb: {2, []int{0x24, 0x84}[rng.Intn(2)]}}
		sp.Steps = append(sp.Steps, Step{Op: "end", VB: vb, St: transientStatus[rng.Intn(4)]}, Step{Op: "waitreopen", VB: vb, N: 2}, Step{Op: "sleep", Ms: 100}, Step{Op: "ack", Sel: "all"}, Step{Op: "commit"},
			Step{Op: "waitreopen", VB: vb, N: 3}, Step{Op: "append", VB: vb, Items: genSnap(rng, o, &ctr)}, Step{Op: "barrier"}, Step{Op: "metrics"}, Step{Op: "waitstop", Ms: 150})
	case "end-in-rebalance":
		// the server ends a vBucket stream with a recoverable status while a rebalance is closing the streams (held inside
		// BeforeStreamStop, or right after the close): after the rebalance every vBucket is streamed, once, and nothing stops
		sp.Membership = "dynamic"
		sp.FirstInfo = [2]int{1, 1}
		h := []string{"BSS", "ASS"}[rng.Intn(2)]
		vb := rng.Intn(sp.NumVB)
		sp.Steps = append(sp.Steps, Step{Op: "holdeh", Sel: h}, Step{Op: "rebalanceapi"}, Step{Op: "waitheld", Sel: h}, Step{Op: "end", VB: vb, St: transientStatus[rng.Intn(4)]}, Step{Op: "sleep", Ms: 50},
			Step{Op: "releaseeh"}, Step{Op: "waitrebalance", N: 1}, Step{Op: "sleep", Ms: 1300}, Step{Op: "barrier"}, Step{Op: "append", VB: vb, Items: genSnap(rng, o, &ctr)}, Step{Op: "barrier"}, Step{Op: "metrics"}, Step{Op: "waitstop", Ms: 150})
	case "reopen-vs-rebalance":
		// a transient end is followed at once by a rebalance; the goroutine that re-opens the ended vBucket is descheduled
		// (injected delay at hook point reopen.start) until the rebalance has closed and reopened everything: the vBucket
		// must end up streamed once, and the stale re-open must neither crash the client nor keep retrying against it
		sp.Membership = "dynamic"
		sp.FirstInfo = [2]int{1, 1}
		vb := rng.Intn(sp.NumVB)
		sp.Steps = append(sp.Steps, Step{Op: "armhook", Sel: "reopen.start", N: 1, Ms: 150 + rng.Intn(100)}, Step{Op: "end", VB: vb, St: transientStatus[rng.Intn(4)]}, Step{Op: "sleep", Ms: 10},
			Step{Op: "rebalanceapi"}, Step{Op: "waitrebalance", N: 1}, Step{Op: "sleep", Ms: 6500}, Step{Op: "barrier"}, Step{Op: "append", VB: vb, Items: genSnap(rng, o, &ctr)}, Step{Op: "barrier"}, Step{Op: "metrics"}, Step{Op: "waitstop", Ms: 150})
	case "finite-complete":
		// a finite run whose stored checkpoints already are at every vBucket's high seqno: each stream ends at once and the
		// client stops on its own
		sp.Mode = "finite"
		sp.API = false
		sp.PreStore = map[int][4]uint64{}
		sp.Backlog = map[int][][]ItemSpec{}
		for vb := 0; vb < sp.NumVB; vb++ {
			if rng.Intn(4) != 0 {
				its := []ItemSpec{}
				for k := 0; k < 1+rng.Intn(3); k++ {
					ctr++
					its = append(its, ItemSpec{K: "m", Key: []byte(fmt.Sprintf("f%d", ctr)), Val: []byte("{}")})
				}
				sp.Backlog[vb] = [][]ItemSpec{its}
				n := uint64(len(its))
				sp.PreStore[vb] = [4]uint64{0xabc000 + uint64(vb), n, 1, n}
			}
		}
		sp.Steps = []Step{{Op: "waitstop", Ms: 5000}}
	case "mixed":
		for k := 0; k < 2+rng.Intn(6); k++ {
			vb := rng.Intn(sp.NumVB)
			if finally[vb] {
				continue
			}
			if rng.Intn(3) == 0 && len(finally) < sp.NumVB-1 {
				final(vb)
			} else {
				transient(vb)
				if rng.Intn(3) == 0 {
					transient(vb) // repeated transient end of the same vBucket
				}
			}
			if rng.Intn(2) == 0 {
				sp.Steps = append(sp.Steps, Step{Op: "ack", Sel: "random", N: 2})
			}
			if rng.Intn(3) == 0 {
				sp.Steps = append(sp.Steps, Step{Op: "metrics"})
			}
		}
		sp.Steps = append(sp.Steps, Step{Op: "barrier"}, Step{Op: "metrics"}, Step{Op: "waitstop", Ms: 150})
	case "allfinal":
		order := rng.Perm(sp.NumVB)
		for n, vb := range order {
			if rng.Intn(3) == 0 {
				transient(vb)
			}
			if n == len(order)-1 {
				sp.Steps = append(sp.Steps, Step{Op: "metrics"}, Step{Op: "waitstop", Ms: 100}) // one stream left: must still be running
			}
			final(vb)
		}
		sp.Steps = append(sp.Steps, Step{Op: "waitstop", Ms: 5000})
	case "finite":
		sp.Mode = "finite"
		sp.API = false
		sp.Steps = nil
		if rng.Intn(2) == 0 {
			// a transient end before the high seqno is reached, then the clean end after the re-open
			sp.ReqHold = map[int]int{}
		}
		// items arriving after the high seqno was sampled must not be delivered
		for k := 0; k < 1+rng.Intn(3); k++ {
			sp.Steps = append(sp.Steps, Step{Op: "append", VB: rng.Intn(sp.NumVB), Items: genSnap(rng, o, &ctr)})
		}
		sp.Steps = append(sp.Steps, Step{Op: "waitstop", Ms: 5000})
	case "socket":
		sp.Steps = append(sp.Steps, Step{Op: "dropdcp"})
		for vb := 0; vb < sp.NumVB; vb++ {
			reqs[vb]++
			sp.Steps = append(sp.Steps, Step{Op: "waitreopen", VB: vb, N: reqs[vb]})
		}
		sp.Steps = append(sp.Steps, Step{Op: "append", VB: rng.Intn(sp.NumVB), Items: genSnap(rng, o, &ctr)}, Step{Op: "barrier"}, Step{Op: "metrics"}, Step{Op: "waitstop", Ms: 150})
	case "hold":
		// vb 0 ends transiently and its re-request is held; meanwhile every other vBucket ends for good:
		// the client must keep running; after the release vb 0 keeps being streamed
		sp.ReqHold = map[int]int{0: 2}
		sp.Steps = append(sp.Steps, Step{Op: "end", VB: 0, St: transientStatus[rng.Intn(4)]}, Step{Op: "waithold", N: 1})
		for vb := 1; vb < sp.NumVB; vb++ {
			final(vb)
		}
		sp.Steps = append(sp.Steps, Step{Op: "waitstop", Ms: 200}, Step{Op: "releasereq"}, Step{Op: "waitreopen", VB: 0, N: 2},
			Step{Op: "append", VB: 0, Items: genSnap(rng, o, &ctr)}, Step{Op: "barrier"}, Step{Op: "metrics"}, Step{Op: "waitstop", Ms: 100})
	}
	return sp, kind
}

// c12Extra: kinds added after the fourth round of seeded changes.
func c12Extra(rng *rand.Rand, kind string, j int) *SessSpec {
	sp := &SessSpec{NumVB: 2 + rng.Intn(4), Nodes: 1, AckSeed: rng.Int63(), PNow: 1, Backend: "mem", Backlog: map[int][][]ItemSpec{}, API: true}
	o := &HistOpts{NumVB: sp.NumVB, PSystem: 0.05, PSeqAdv: 0.1, MaxItems: 4}
	ctr := 0
	for vb := 0; vb < sp.NumVB; vb++ {
		sp.Backlog[vb] = append(sp.Backlog[vb], genSnap(rng, o, &ctr))
	}
	vb := rng.Intn(sp.NumVB)
	switch kind {
	case "reopen-refused":
		// every re-open attempt after a transient end is refused: the library gives up with a fatal error after its retries
		// (fail-stop) or keeps trying; it must neither carry on without the vBucket nor count it as ended for good
		sp.ReqFail = map[int][2]int{vb: {2, []int{0x02, 0x24, 0x84}[j%3]}} // also KEY_EEXISTS ("the producer says it streams this vBucket")
		sp.ReqFailFrom = true
		sp.Steps = []Step{{Op: "barrier"}, {Op: "metrics"}, {Op: "end", VB: vb, St: transientStatus[rng.Intn(4)]}, {Op: "sleep", Ms: 9500}, {Op: "metrics"}, {Op: "waitstop", Ms: 150}}
	case "retry-vs-rebalance":
		// the first re-open attempt is refused; during the library's back-off a rebalance closes and reopens everything; the
		// retry that wakes up afterwards belongs to the old open and must not request the vBucket a second time
		sp.Membership = "dynamic"
		sp.FirstInfo = [2]int{1, 1}
		sp.ReqFail = map[int][2]int{vb: {2, []int{0x24, 0x84}[rng.Intn(2)]}}
		sp.Steps = []Step{{Op: "barrier"}, {Op: "metrics"}, {Op: "end", VB: vb, St: transientStatus[rng.Intn(4)]}, {Op: "waitreopen", VB: vb, N: 2}, {Op: "sleep", Ms: 30}, {Op: "rebalanceapi"}, {Op: "waitrebalance", N: 1},
			{Op: "sleep", Ms: 6500}, {Op: "barrier"}, {Op: "append", VB: vb, Items: genSnap(rng, o, &ctr)}, {Op: "barrier"}, {Op: "metrics"}, {Op: "waitstop", Ms: 150}}
	case "slow-close-end":
		// as "rebalanced-allfinal", but the handling of one vBucket's close confirmation (stream end, status "closed") is held up
		// (a slow log sink at the library's "end stream" line): it belongs to the closed open and must not be counted against
		// the next one
		sp.Membership = "dynamic"
		sp.FirstInfo = [2]int{1, 1}
		sp.LogDelayMs = map[string]int{fmt.Sprintf("end stream vbID: %d", vb): 250 + rng.Intn(150)}
		sp.Steps = []Step{{Op: "barrier"}, {Op: "metrics"}, {Op: "rebalanceapi"}, {Op: "waitrebalance", N: 1}, {Op: "sleep", Ms: 600}, {Op: "barrier"}, {Op: "metrics"}}
		for _, v := range rng.Perm(sp.NumVB) {
			if v == vb {
				continue // this one keeps streaming: the client must not stop
			}
			sp.Steps = append(sp.Steps, Step{Op: "end", VB: v, St: finalStatus[rng.Intn(len(finalStatus))]}, Step{Op: "sleep", Ms: 700}, Step{Op: "metrics"})
		}
		sp.Steps = append(sp.Steps, Step{Op: "waitstop", Ms: 300})
	case "rebalanced-allfinal":
		// an idle stream is rebalanced (the node confirms every close request with a stream end, status "closed"); afterwards
		// every vBucket ends for good, one after the other: each end is counted and the last one stops the client
		sp.Membership = "dynamic"
		sp.FirstInfo = [2]int{1, 1}
		sp.Steps = []Step{{Op: "barrier"}, {Op: "metrics"}, {Op: "rebalanceapi"}, {Op: "waitrebalance", N: 1}, {Op: "barrier"}, {Op: "metrics"}}
		for _, v := range rng.Perm(sp.NumVB) {
			sp.Steps = append(sp.Steps, Step{Op: "end", VB: v, St: finalStatus[rng.Intn(len(finalStatus))]}, Step{Op: "sleep", Ms: 40}, Step{Op: "metrics"})
		}
		sp.Steps = append(sp.Steps, Step{Op: "waitstop", Ms: 3000})
	case "finite-rebalance":
		// a finite run is rebalanced before anything was consumed (the node confirms every close request with a stream end):
		// afterwards every vBucket still runs to its end and the client stops on its own
		sp.Mode = "finite"
		sp.API = true
		sp.Membership = "dynamic"
		sp.FirstInfo = [2]int{1, 1}
		if j%3 == 0 {
			sp.HoldConsAtStart = true
			sp.Steps = []Step{{Op: "waitblocked", N: 1}, {Op: "rebalanceapi"}, {Op: "waitrebalance", N: 1}, {Op: "releasecons"}, {Op: "waitstop", Ms: 5000}}
			break
		}
		if j%3 == 2 {
			// ... and every re-opened stream runs to its end while the application's AfterRebalanceEnd handler is still busy
			sp.HoldConsAtStart = true
			sp.Steps = []Step{{Op: "waitblocked", N: 1}, {Op: "holdeh", Sel: "ARE"}, {Op: "rebalanceapi"}, {Op: "waitheld", Sel: "ARE"}, {Op: "releasecons"}, {Op: "sleep", Ms: 400}, {Op: "releaseeh"}, {Op: "waitstop", Ms: 5000}}
			break
		}
		// ... or while a slow consumer is working through the backlog
		sp.SlowConsUs = 25000
		for v := 0; v < sp.NumVB; v++ {
			for k := 0; k < 3; k++ {
				sp.Backlog[v] = append(sp.Backlog[v], genSnap(rng, o, &ctr))
			}
		}
		sp.Steps = []Step{{Op: "sleep", Ms: 60 + rng.Intn(60)}, {Op: "rebalanceapi"}, {Op: "waitrebalance", N: 1}, {Op: "waitstop", Ms: 9000}}
	}
	return sp
}

func OracleEnds(tr *Trace) ([]Finding, int) {
	var fs []Finding
	n := 0
	sp := tr.Spec
	var closeCall, startRet int64
	for _, r := range tr.Log {
		switch r.K {
		case "ctl.close.call":
			if closeCall == 0 {
				closeCall = r.T
			}
		case "ctl.start.ret":
			startRet = r.T
		}
	}
	end := closeCall
	if end == 0 {
		end = 1<<62 - 1
	}
	finalEnded := map[int]int64{}
	// a rebalance re-requests every assigned vBucket from the stored checkpoints (C11), whatever ended before it
	var opens []int64
	for _, r := range tr.Log {
		if r.K == "eh.BSStart" && r.T < end {
			opens = append(opens, r.T)
		}
	}
	reopenedBetween := func(a, b int64) bool {
		for _, t := range opens {
			if t > a && t < b {
				return true
			}
		}
		return false
	}
	endedBeforeLastOpen := false
	for vb := 0; vb < sp.NumVB; vb++ {
		segs := tr.Segs[vb]
		for i, sg := range segs {
			if sg.ReplySt != 0 && sg.ReplySt != int(cbsim.StRollback) && i+1 < len(segs) && segs[i+1].ReqT < end && i > 0 && !reopenedBetween(sg.ReqT, segs[i+1].ReqT) {
				// a refused re-open attempt: the next attempt starts from the position tracked when IT is made
				nx := segs[i+1]
				want := tuple{segs[0].ReqUUID, segs[0].Start, segs[0].SnapS, segs[0].SnapE}
				for _, r := range tr.Log {
					if r.K == "cons.track" && r.VB == vb && r.T < nx.ReqT {
						want = tuple{r.D, r.Seq, r.B, r.C}
					}
				}
				got := tuple{nx.ReqUUID, nx.Start, nx.SnapS, nx.SnapE}
				n++
				if got != want {
					fs = append(fs, Finding{"C12", "reopen", "C12/reopen/position-on-retry", fmt.Sprintf("vb %d: the re-open attempt after a refused one started from (vbuuid %x, %d, [%d,%d]); the position tracked at that moment was (vbuuid %x, %d, [%d,%d])", vb, got.uuid, got.seq, got.ss, got.se, want.uuid, want.seq, want.ss, want.se)})
				}
			}
			if sg.ReplySt != 0 || sg.ReqT > end {
				continue
			}
			n++
			// position tracked when the next request was made
			if sg.EndT != 0 && sg.EndT < end && (sg.CloseT == 0 || sg.CloseT > sg.EndT) {
				if isTransient(sg.EndSt) {
					// must be re-requested from the latest settled position
					if sg.NextReqT == 0 || sg.NextReqT > end {
						// allow for a request in flight at close time: only a violation when the session went on long enough
						if tr.reopenObservable(vb, sg) {
							fs = append(fs, Finding{"C12", "reopen", "C12/reopen/missing", fmt.Sprintf("vb %d: stream ended with transient status %d at tick %d and was never requested again", vb, sg.EndSt, sg.EndT)})
						}
						continue
					}
					nx := segs[i+1]
					// when a rebalance reopened everything in between, the next request of this vBucket is the rebalance's own
					// (from the stored checkpoint: C11's clause), not the re-open after the end
					byRebalance := false
					for _, r := range tr.Log {
						if r.K == "eh.BSStart" && r.T > sg.EndT && r.T < nx.ReqT {
							byRebalance = true
						}
					}
					if byRebalance {
						continue
					}
					want := tuple{sg.ReqUUID, sg.Start, sg.SnapS, sg.SnapE}
					for _, r := range tr.Log {
						if r.K == "cons.track" && r.VB == vb && r.T > sg.ReqT && r.T < nx.ReqT {
							want = tuple{r.D, r.Seq, r.B, r.C}
						}
					}
					got := tuple{nx.ReqUUID, nx.Start, nx.SnapS, nx.SnapE}
					if got != want {
						fs = append(fs, Finding{"C12", "reopen", "C12/reopen/position", fmt.Sprintf("vb %d: re-opened after transient end from (vbuuid %x, %d, [%d,%d]); latest settled position was (vbuuid %x, %d, [%d,%d])", vb, got.uuid, got.seq, got.ss, got.se, want.uuid, want.seq, want.ss, want.se)})
					}
				} else {
					if len(opens) > 0 && sg.EndT < opens[len(opens)-1] {
						endedBeforeLastOpen = true // belongs to an earlier open; the rebalance streams the vBucket again
					} else if sg.NextReqT != 0 && sg.NextReqT < end {
						fs = append(fs, Finding{"C12", "final", "C12/final/reopened", fmt.Sprintf("vb %d: stream ended for good (status %d) and was requested again", vb, sg.EndSt)})
					} else {
						finalEnded[vb] = sg.EndT
					}
				}
			}
		}
	}
	// socket-closed ends: every vBucket that had an open stream on a dropped DCP connection must be re-requested
	for _, r := range tr.Log {
		if r.K == "sim.connclose" && r.T < end {
			_ = r
		}
	}
	if sp.Steps != nil {
		dropped := false
		for _, st := range sp.Steps {
			if st.Op == "dropdcp" {
				dropped = true
			}
		}
		if dropped {
			for vb := 0; vb < sp.NumVB; vb++ {
				if len(tr.Segs[vb]) < 2 {
					fs = append(fs, Finding{"C12", "reopen", "C12/reopen/missing-after-socket-close", fmt.Sprintf("vb %d: the DCP connection was dropped and the vBucket was never requested again", vb)})
				}
			}
		}
	}
	// every re-open attempt refused: a client that is still running keeps trying (the script watched it for 9.5 s; the library retries every second)
	if sp.ReqFailFrom && closeCall != 0 {
		for vb := range sp.ReqFail {
			var lastReqW, closeW int64
			for _, r := range tr.Log {
				if r.K == "sim.rx" && r.Op == cbsim.OpDcpStreamReq && r.VB == vb && r.T < closeCall {
					lastReqW = r.W
				}
				if r.K == "ctl.close.call" && closeW == 0 {
					closeW = r.W
				}
			}
			n++
			if lastReqW != 0 && closeW-lastReqW > int64(4500*time.Millisecond) {
				fs = append(fs, Finding{"C12", "reopen", "C12/reopen/abandoned", fmt.Sprintf("vb %d: every re-open attempt after the transient end was refused; the client neither stopped with an error nor kept trying (%d stream requests, the last one %.1f s before the harness closed the client) - it carries on without the vBucket", vb, len(tr.Segs[vb]), float64(closeW-lastReqW)/1e9)})
			}
		}
	}
	// self-termination iff every assigned vBucket ended for good
	allFinal := len(finalEnded) == sp.NumVB
	stoppedSelf := startRet != 0 && (closeCall == 0 || startRet < closeCall)
	if allFinal && !stoppedSelf {
		fs = append(fs, Finding{"C12", "stop", "C12/stop/missing", fmt.Sprintf("all %d vBucket streams ended for good, but the client did not stop on its own", sp.NumVB)})
	}
	if !allFinal && stoppedSelf {
		var open []int
		for vb := 0; vb < sp.NumVB; vb++ {
			if _, ok := finalEnded[vb]; !ok {
				open = append(open, vb)
			}
		}
		fs = append(fs, Finding{"C12", "stop", "C12/stop/early", fmt.Sprintf("the client stopped on its own (tick %d) while vBuckets %v had not ended for good", startRet, open)})
	}
	// active-stream count at quiescent scrapes
	for _, m := range tr.Metrics {
		if !m.OK {
			continue
		}
		v, ok := m.Vals["cbgo_active_stream_current"]
		if !ok {
			continue
		}
		if endedBeforeLastOpen && len(opens) > 0 && m.TCall < opens[len(opens)-1] {
			continue // a scrape in an earlier open that had final ends of its own: not reconstructed here
		}
		ended := 0
		ambiguous := false
		for vb, t := range finalEnded {
			_ = vb
			if t < m.TCall {
				ended++
			}
			if t >= m.TCall && t <= m.TRet {
				ambiguous = true
			}
		}
		// a transient end whose re-open is still in flight does not change the count either
		n++
		if !ambiguous && int(v) != sp.NumVB-ended {
			fs = append(fs, Finding{"C12", "count", "C12/count", fmt.Sprintf("active-stream gauge %v at tick %d, expected %d (assigned %d, finally ended %d)", v, m.TCall, sp.NumVB-ended, sp.NumVB, ended)})
		}
	}
	// finite mode: once every vBucket has reached the high seqno sampled at open the client stops on its own (bounded: the
	// script waited 5 s for it)
	if sp.Mode == "finite" && len(sp.ReqHold) == 0 && !stoppedSelf && closeCall != 0 {
		fs = append(fs, Finding{"C12", "stop", "C12/stop/missing-finite", fmt.Sprintf("finite mode: every assigned vBucket is at its high seqno, the client was still running when the harness closed it (tick %d)", closeCall)})
	}
	// finite mode: everything up to the sampled high seqno delivered, nothing beyond
	if sp.Mode == "finite" {
		for vb := 0; vb < sp.NumVB; vb++ {
			if len(tr.Segs[vb]) == 0 {
				continue
			}
			endSeq := tr.Segs[vb][0].End
			for _, e := range tr.Events {
				if int(e.VB) == vb && e.Seq > endSeq {
					fs = append(fs, Finding{"C12", "finite", "C12/finite/beyond", fmt.Sprintf("vb %d: event %d delivered beyond the high seqno %d sampled at open", vb, e.Seq, endSeq)})
				}
			}
		}
		for _, f := range OracleDelivery(tr) {
			if f.Prop == "C03" && f.Clause == "list" {
				fs = append(fs, Finding{"C12", "finite", "C12/finite/" + f.Key[4:], "finite mode: " + f.Detail})
			}
		}
	}
	return fs, n
}

// reopenObservable: did the session continue long enough after the end for a re-request to be expected
// (a later barrier or waitreopen completed)? The library re-requests immediately.
func (tr *Trace) reopenObservable(vb int, sg *Seg) bool {
	var endW, closeW int64
	for _, r := range tr.Log {
		if r.T > sg.EndT+200 { // at least 200 further records (a later barrier, deliveries, scrapes) were logged
			return true
		}
		if r.T >= sg.EndT && endW == 0 {
			endW = r.W
		}
		if r.K == "ctl.close.call" && closeW == 0 {
			closeW = r.W
		}
	}
	// ... or the client kept running for 3 s after the end (the script waited that long for the re-request; the library
	// re-requests at once and retries after 1 s)
	return endW != 0 && closeW != 0 && closeW-endW >= int64(3*time.Second)
}

func init() {
	drv.Register(&drv.Prop{
		ID: "C12", Level: "fault_enumeration", Parallel: 12, Batch: 1, MinConclusive: 40,
		Rule: "sequences of stream ends on 2-6 vBuckets: each transient cause (state changed, disconnected, too slow, backfill failed, socket closed by dropping the DCP connection), each final cause (ok, closed, filter empty, lost privileges, unknown status), " +
			"repeated transient ends of one vBucket, ends while others still stream, a re-request held in flight while all other vBuckets end for good, all vBuckets ending for good in every order, finite mode with items arriving after the high seqno was sampled; rebalances with ends in flight, incl. a close confirmation whose handling is held up across the reopen. " +
			"Oracle: per-vBucket state machine over STREAM_END sent / STREAM_REQ received (re-request from the tracked tuple; none after a final end), Start() returns on its own iff every assigned vBucket ended for good, cbgo_active_stream_current == assigned - finally ended at quiescent scrapes, finite mode delivers exactly the items <= sampled high seqno. " +
			"Non-trivial: a sequence containing both a transient and a final end (or a repeated transient end); distinct = distinct abstract traces",
		Assumptions: []string{"cbsim ends streams with the scripted status codes; gocbcore maps them to the error values the library inspects"},
		Gen: func(seed int64, tier string) []drv.Scenario {
			rng := rand.New(rand.NewSource(seed))
			n := 240
			if tier == "thorough" {
				n = 2400
			}
			var out []drv.Scenario
			for i := 0; i < n; i++ {
				sp, kind := c12Spec(rng, i)
				out = append(out, drv.Scenario{Kind: kind, Seed: seed, Params: mustJSON(sp), TimeoutS: 120})
			}
			// further kinds, drawn from their own source so that the list above stays what it was
			xr := rand.New(rand.NewSource(seed*131 + 7))
			for j := 0; j < n/80; j++ {
				for _, k := range []string{"reopen-refused", "retry-vs-rebalance", "finite-rebalance", "rebalanced-allfinal"} {
					out = append(out, drv.Scenario{Kind: k, Seed: seed, Params: mustJSON(c12Extra(xr, k, j)), TimeoutS: 120})
				}
			}
			yr := rand.New(rand.NewSource(seed*137 + 29))
			for j := 0; j < n/80; j++ {
				out = append(out, drv.Scenario{Kind: "slow-close-end", Seed: seed, Params: mustJSON(c12Extra(yr, "slow-close-end", j)), TimeoutS: 120})
			}
			return out
		},
		Run: func(sc drv.Scenario) drv.Result {
			var sp SessSpec
			if err := json.Unmarshal(sc.Params, &sp); err != nil {
				return drv.Result{Verdict: drv.Inconclusive, Detail: err.Error()}
			}
			tr := RunSession(&sp)
			fs, n := OracleEnds(tr)
			tcount, fcount, rep := 0, 0, false
			for _, segs := range tr.Segs {
				t := 0
				for _, sg := range segs {
					if sg.EndT != 0 && (sg.CloseT == 0 || sg.CloseT > sg.EndT) {
						if isTransient(sg.EndSt) {
							tcount++
							t++
						} else {
							fcount++
						}
					}
				}
				if t >= 2 {
					rep = true
				}
			}
			var gauges []float64
			for _, m := range tr.Metrics {
				if m.OK {
					gauges = append(gauges, m.Vals["cbgo_active_stream_current"])
				}
			}
			sample := map[string]any{"kind": sc.Kind, "vbuckets": sp.NumVB, "transient_ends": tcount, "final_ends": fcount, "stream_requests": tr.count("sim.rx.streamreq"), "active_stream_gauge_readings": gauges,
				"start_returned_on_its_own": tr.count("ctl.start.ret") > 0}
			r := sessionResult("C12", tr, fs, (tcount > 0 && fcount > 0) || rep || sc.Kind == "socket" || sc.Kind == "finite" || sc.Kind == "reopen-refused" || sc.Kind == "retry-vs-rebalance" || sc.Kind == "finite-rebalance" || sc.Kind == "rebalanced-allfinal", sample)
			r.Events["sim.rx.streamreq"] = 0
			for _, segs := range tr.Segs {
				r.Events["sim.rx.streamreq"] += len(segs)
			}
			r.Checks = n
			return r
		},
		OnDeath: func(sc drv.Scenario, out drv.ChildOutcome) drv.Result {
			if sc.Kind == "reopen-refused" && drv.IsLibraryPanic(out.Stderr) && strings.Contains(out.Stderr, "reopenStream") {
				return drv.Result{Verdict: drv.Held, Nontrivial: true, Checks: 1, TraceHash: drv.Hash("reopen-refused", "fail-stop"), Events: map[string]int{"fail_stop": 1},
					Sample: map[string]any{"kind": sc.Kind, "outcome": "fail-stop after the refused re-open attempts: " + drv.PanicLine(out.Stderr)}}
			}
			if drv.IsLibraryPanic(out.Stderr) {
				return drv.Result{Verdict: drv.Violated, Clause: "death", FindingKey: "C12/process-death", Detail: "the client died while recovering from stream ends (the vBucket does not keep being streamed): " + drv.PanicLine(out.Stderr)}
			}
			return drv.Result{Verdict: drv.Inconclusive, Detail: "child ended: " + drv.PanicLine(out.Stderr)}
		},
	})
}
