package props

import (
	"encoding/json"
	"fmt"
	"math/rand"
	"os"
	"sync"
	"time"

	"github.com/Trendyol/go-dcp/couchbase"
	"github.com/Trendyol/go-dcp/models"

	"verif/harness/cbsim"
	"verif/harness/drv"
	"verif/harness/evlog"
	"verif/harness/hx"
)

// C07 — with rollback mitigation, nothing the cluster could still roll back is delivered.

func c07Spec(rng *rand.Rand, i int) (*SessSpec, string) {
	kinds := []string{"lagging", "uuid-change", "errors", "late-replica", "unassigned", "reopen", "close-waiting", "regress"}
	kind := kinds[i%len(kinds)]
	if i%24 == 20 || i%24 == 12 {
		kind = "map-change"
	}
	if i%48 == 4 || i%48 == 27 {
		kind = "observe-silent"
	}
	nodes := 1 + rng.Intn(4)
	repl := rng.Intn(4)
	if kind == "late-replica" || kind == "lagging" || kind == "uuid-change" || kind == "errors" || kind == "map-change" || kind == "observe-silent" {
		if nodes < 2 {
			nodes = 2
		}
		if repl < 1 {
			repl = 1
		}
	}
	sp := &SessSpec{NumVB: 1 + rng.Intn(4), Nodes: nodes, Replicas: repl, AckSeed: rng.Int63(), PNow: 1, Backend: "mem", Backlog: map[int][][]ItemSpec{}, RollbackMitigation: true,
		RMIntervalMs: 10 + rng.Intn(20), ObserveInit: map[string][2]uint64{}, UnassignedReplicas: map[int][]int{}}
	// every other session: the node announces its snapshots as on-disk (backfill) snapshots - persisted on the active copy says
	// nothing about the replicas, the gate is the same
	sp.DiskMarkers = i%2 == 1
	o := &HistOpts{NumVB: sp.NumVB, PReserved: 0.05, PSystem: 0.08, PSeqAdv: 0.3, MaxItems: 4}
	ctr := 0
	mcVB := -1
	if kind == "map-change" {
		// the gated vBucket starts with replica 1 unassigned; a later cluster map assigns it
		mcVB = rng.Intn(sp.NumVB)
		sp.UnassignedReplicas[mcVB] = []int{1}
	}
	present := func(vb int) []int { // replica indexes present for vb given the sim's default layout
		out := []int{0}
		for r := 1; r <= repl; r++ {
			if nodes > r {
				skip := false
				for _, u := range sp.UnassignedReplicas[vb] {
					if u == r {
						skip = true
					}
				}
				if !skip {
					out = append(out, r)
				}
			}
		}
		return out
	}
	if kind == "unassigned" && repl >= 1 && nodes > 1 {
		for vb := 0; vb < sp.NumVB; vb++ {
			if rng.Intn(2) == 0 {
				sp.UnassignedReplicas[vb] = []int{1 + rng.Intn(repl)}
			}
		}
	}
	// everything starts unpersisted
	for vb := 0; vb < sp.NumVB; vb++ {
		for _, ix := range present(vb) {
			sp.ObserveInit[fmt.Sprintf("%d:%d", vb, ix)] = [2]uint64{0, 0}
		}
		sp.Backlog[vb] = append(sp.Backlog[vb], genSnap(rng, o, &ctr), genSnap(rng, o, &ctr))
	}
	vb := rng.Intn(sp.NumVB)
	if mcVB >= 0 {
		vb = mcVB
	}
	sp.GatedVB = vb
	// only the chosen vBucket is gated: an event waiting in rollback mitigation blocks the DCP connection's
	// dispatch goroutine, so an uncovered event of ANOTHER vBucket on the same connection would delay this
	// one's events for reasons the wake-up clause does not talk about
	for v := 0; v < sp.NumVB; v++ {
		if v != vb {
			for _, ix := range present(v) {
				sp.ObserveInit[fmt.Sprintf("%d:%d", v, ix)] = [2]uint64{0, 1000}
			}
		}
	}
	obs := func(vb, ix int, persisted uint64, uuid int) Step {
		return Step{Op: "observe", VB: vb, N: ix, St: uint32(persisted), Ms: uuid}
	}
	wr := func(vb, n int) Step { return Step{Op: "waitrounds", VB: vb, N: n} }
	pr := present(vb)
	hi := uint64(12)
	if kind == "lagging" && i%16 == 0 {
		// the gated vBucket is rolled back at its first open (stored position F, rollback point R < F, a new history without
		// an item at F): while the client skips what it has seen, and afterwards, nothing passes that the copies have not
		// persisted
		F := uint64(4 + rng.Intn(5))
		R := uint64(rng.Intn(int(F)))
		var snaps [][]ItemSpec
		seq := uint64(0)
		for k := 0; k < 3 || seq < F+3; k++ {
			sn := genSnap(rng, o, &ctr)
			for j := range sn {
				seq++
				if seq == F {
					seq++
				}
				sn[j].Seq = seq
			}
			snaps = append(snaps, sn)
		}
		sp.Backlog[vb] = snaps
		sp.PreStore = map[int][4]uint64{vb: {0x1111, F, F, F}}
		sp.Rollbacks = map[int]uint64{vb: R}
		sp.Failover = map[int][][2]uint64{vb: {{0xbbb, R + 1}, {0xaaa, 0}}}
		hi = seq
	}
	if kind == "late-replica" && i%16 == 3 && sp.NumVB >= 2 {
		// the copies report the gated vBucket's backlog persisted while Open() is still waiting for the answer to the stream
		// request of another vBucket; nothing changes afterwards: what they reported then still counts
		other := (vb + 1) % sp.NumVB
		sp.ReqHold = map[int]int{other: 1}
		sp.StartSteps = []Step{{Op: "waithold", N: 1}, {Op: "waitopen", VB: vb}, {Op: "waitrounds", VB: vb, N: 2}}
		for _, ix := range pr {
			sp.StartSteps = append(sp.StartSteps, Step{Op: "observe", VB: vb, N: ix, St: 1000})
		}
		sp.StartSteps = append(sp.StartSteps, Step{Op: "waitrounds", VB: vb, N: 3}, Step{Op: "releasereq"})
		sp.Steps = append(sp.Steps, wr(vb, 3), Step{Op: "barrier"})
		return sp, "reported-during-open"
	}
	switch kind {
	case "lagging", "unassigned":
		// replicas advance one at a time; the slowest one gates
		for step := 0; step < 4+rng.Intn(4); step++ {
			ix := pr[rng.Intn(len(pr))]
			sp.Steps = append(sp.Steps, obs(vb, ix, uint64(1+rng.Intn(int(hi))), 0), wr(vb, 2))
			if rng.Intn(3) == 0 {
				sp.Steps = append(sp.Steps, Step{Op: "append", VB: vb, Items: genSnap(rng, o, &ctr)})
			}
		}
		for _, ix := range pr {
			sp.Steps = append(sp.Steps, obs(vb, ix, 1000, 0))
		}
	case "uuid-change":
		// one replica reports another branch, then all agree on it
		for _, ix := range pr {
			sp.Steps = append(sp.Steps, obs(vb, ix, 3, 0))
		}
		sp.Steps = append(sp.Steps, wr(vb, 3), obs(vb, pr[len(pr)-1], 1000, 0xbeef), wr(vb, 3))
		for _, ix := range pr {
			sp.Steps = append(sp.Steps, obs(vb, ix, 1000, 0xbeef), wr(vb, 1))
		}
	case "errors":
		ix := pr[len(pr)-1]
		sp.Steps = append(sp.Steps, Step{Op: "observefail", VB: vb, N: ix, Sel: []string{"tmpfail", "busy"}[rng.Intn(2)]})
		for _, j := range pr {
			sp.Steps = append(sp.Steps, obs(vb, j, 1000, 0))
		}
		sp.Steps = append(sp.Steps, wr(vb, 5), Step{Op: "observefail", VB: vb, N: ix, Sel: "ok"})
	case "late-replica":
		// the active copy reports at once, a replica reports nothing for a while (errors), then catches up
		ix := pr[len(pr)-1]
		sp.Steps = append(sp.Steps, Step{Op: "observefail", VB: vb, N: ix, Sel: "tmpfail"}, obs(vb, 0, 1000, 0))
		for _, j := range pr[:len(pr)-1] {
			sp.Steps = append(sp.Steps, obs(vb, j, 1000, 0))
		}
		sp.Steps = append(sp.Steps, wr(vb, 6), obs(vb, ix, 2, 0), Step{Op: "observefail", VB: vb, N: ix, Sel: "ok"}, wr(vb, 3), obs(vb, ix, 1000, 0))
	case "regress":
		for _, ix := range pr {
			sp.Steps = append(sp.Steps, obs(vb, ix, 5, 0))
		}
		sp.Steps = append(sp.Steps, wr(vb, 3), obs(vb, pr[0], 2, 0), wr(vb, 3), Step{Op: "append", VB: vb, Items: genSnap(rng, o, &ctr)}, wr(vb, 2))
		for _, ix := range pr {
			sp.Steps = append(sp.Steps, obs(vb, ix, 1000, 0))
		}
	case "reopen":
		// threshold learnt, fail-over (new branch), transient end, re-open: the threshold must not fall
		for v := 0; v < sp.NumVB; v++ {
			for _, ix := range present(v) {
				sp.Steps = append(sp.Steps, obs(v, ix, 1000, 0))
			}
		}
		sp.API = true
		sp.Steps = append(sp.Steps, wr(vb, 3), Step{Op: "barrier"}, Step{Op: "metrics"}, Step{Op: "failover", VB: vb, N: 1 + rng.Intn(9)}, Step{Op: "end", VB: vb, St: 2}, Step{Op: "waitreopen", VB: vb, N: 2},
			Step{Op: "metrics"}, Step{Op: "append", VB: vb, Items: genSnap(rng, o, &ctr)}, wr(vb, 12), Step{Op: "metrics"})
	case "observe-silent":
		// one OBSERVE_SEQNO request to a lagging copy is never answered: after the client's deadline (5 s) the copy is still
		// listed in the cluster map, still lags, and still gates
		ix := pr[len(pr)-1]
		for _, j := range pr[:len(pr)-1] {
			sp.Steps = append(sp.Steps, obs(vb, j, 1000, 0))
		}
		sp.Steps = append(sp.Steps, obs(vb, ix, 1, 0), wr(vb, 3), Step{Op: "observefail", VB: vb, N: ix, Sel: "silent-once"},
			Step{Op: "append", VB: vb, Items: genSnap(rng, o, &ctr)}, Step{Op: "sleep", Ms: 6200}, wr(vb, 4), obs(vb, ix, 1000, 0))
	case "map-change":
		// every copy of the old map is far ahead; the new map (same epoch and higher rev, or a higher epoch whose rev restarts lower)
		// lists one more copy, which lags: events newer than what that copy reports must wait for it
		for _, ix := range pr {
			sp.Steps = append(sp.Steps, Step{Op: "observe", VB: vb, N: ix, Sel: "high"})
		}
		sp.Steps = append(sp.Steps, Step{Op: "barrier"}, Step{Op: "mapchange", VB: vb, N: 1, St: uint32(rng.Intn(3)), Sel: []string{"epoch", "rev"}[rng.Intn(2)]},
			Step{Op: "append", VB: vb, Items: genSnap(rng, o, &ctr)}, Step{Op: "append", VB: vb, Items: genSnap(rng, o, &ctr)})
		for _, ix := range pr {
			sp.Steps = append(sp.Steps, obs(vb, ix, 1000, 0))
		}
		sp.Steps = append(sp.Steps, wr(vb, 4), obs(vb, 1, 1000, 0))
	case "close-waiting":
		for _, ix := range pr {
			sp.Steps = append(sp.Steps, obs(vb, ix, 1, 0))
		}
		sp.Steps = append(sp.Steps, wr(vb, 3), Step{Op: "sleep", Ms: 30})
		sp.Steps = append(sp.Steps, Step{Op: "waitclose", Ms: 20000})
		return sp, kind
	}
	// release every vBucket at the end
	for v := 0; v < sp.NumVB; v++ {
		for _, ix := range present(v) {
			sp.Steps = append(sp.Steps, obs(v, ix, 1000, map[bool]int{true: 0xbeef, false: 0}[kind == "uuid-change" && v == vb]))
		}
	}
	sp.Steps = append(sp.Steps, Step{Op: "barrier"})
	return sp, kind
}

// OracleGate: every delivery must be covered by replies, sent before it, of every present copy under one uuid.
func OracleGate(tr *Trace, kind string) ([]Finding, int, bool) {
	var fs []Finding
	sp := tr.Spec
	type rep struct {
		t       int64
		uuid    uint64
		persist uint64
	}
	replies := map[[2]int][]rep{} // (vb, replica) -> replies in tick order
	for _, r := range tr.Log {
		if r.K == "sim.tx" && r.Op == cbsim.OpObserveSeqno && r.St == 0 {
			k := [2]int{r.VB, int(int64(r.B))}
			replies[k] = append(replies[k], rep{r.T, r.A, r.Seq})
		}
	}
	present := map[int][]int{}
	for vb := 0; vb < sp.NumVB; vb++ {
		for ix, nd := range tr.Env.Sim.ReplicaNodes(uint16(vb)) {
			if nd >= 0 {
				present[vb] = append(present[vb], ix)
			}
		}
	}
	// a copy assigned by a later cluster map counts for events sent after the client is known to have that map
	lateCopy := map[[2]int]int64{} // (vb, replica) -> tick from which it is required
	for _, r := range tr.Log {
		if r.K == "ctl.mapchange.known" {
			lateCopy[[2]int{r.VB, int(r.C)}] = r.T
		}
	}
	sentAt := map[[2]uint64]int64{}
	for vb, segs := range tr.Segs {
		for _, sg := range segs {
			for _, it := range sg.Items {
				if _, ok := sentAt[[2]uint64{uint64(vb), it.Seq}]; !ok {
					sentAt[[2]uint64{uint64(vb), it.Seq}] = it.T
				}
			}
		}
	}
	// what reaches the consumer: deliveries and offset-tracker notifications (absorbed events: seqno-advanced, system events)
	type reach struct {
		VB   uint16
		Seq  uint64
		T    int64
		What string
	}
	var reaches []reach
	for _, e := range tr.Events {
		reaches = append(reaches, reach{e.VB, e.Seq, e.T, "delivered"})
	}
	for _, r := range tr.Log {
		if r.K == "cons.track" {
			reaches = append(reaches, reach{uint16(r.VB), r.Seq, r.T, "reported to the offset tracker"})
		}
	}
	checked := 0
	waited := false
	for _, e := range reaches {
		vb := int(e.VB)
		checked++
		// candidate uuids: those the active copy reported before the delivery
		ok := false
		uuids := map[uint64]bool{}
		for _, rp := range replies[[2]int{vb, 0}] {
			if rp.t < e.T {
				uuids[rp.uuid] = true
			}
		}
		for u := range uuids {
			all := true
			for _, ix := range present[vb] {
				if from, late := lateCopy[[2]int{vb, ix}]; late && sentAt[[2]uint64{uint64(vb), e.Seq}] < from {
					continue // sent before the client had the map listing this copy
				}
				cov := false
				for _, rp := range replies[[2]int{vb, ix}] {
					if rp.t < e.T && rp.uuid == u && rp.persist >= e.Seq {
						cov = true
						break
					}
				}
				if !cov {
					all = false
					break
				}
			}
			if all {
				ok = true
				break
			}
		}
		if !ok {
			// describe what was known at delivery
			var st []string
			for _, ix := range present[vb] {
				last := "never replied"
				for _, rp := range replies[[2]int{vb, ix}] {
					if rp.t < e.T {
						last = fmt.Sprintf("uuid %x persisted %d", rp.uuid, rp.persist)
					}
				}
				st = append(st, fmt.Sprintf("copy %d: %s", ix, last))
			}
			shape := "not-persisted-everywhere"
			for _, s := range st {
				if len(s) > 8 && s[len(s)-13:] == "never replied" {
					shape = "copy-never-reported"
				}
			}
			fs = append(fs, Finding{"C07", "gate", "C07/gate/" + shape, fmt.Sprintf("vb %d seq %d %s at tick %d although not every copy had reported, under one vbUUID, a persisted seqno >= %d (latest replies before that: %v)", vb, e.Seq, e.What, e.T, e.Seq, st)})
			break
		}
	}
	// waiting observed? (an item sent noticeably before its delivery while uncovered)
	sentT := map[[2]uint64]int64{}
	for vb, segs := range tr.Segs {
		for _, sg := range segs {
			for _, it := range sg.Items {
				sentT[[2]uint64{uint64(vb), it.Seq}] = it.T
			}
		}
	}
	for _, e := range tr.Events {
		if st, ok := sentT[[2]uint64{uint64(e.VB), e.Seq}]; ok {
			n := 0
			for _, rp := range replies[[2]int{int(e.VB), 0}] {
				if rp.t > st && rp.t < e.T {
					n++
				}
			}
			if n >= 1 {
				waited = true
			}
		}
	}
	// lost wake-up: between the moment an item was sent and its delivery (or the end of the session) no more
	// than 8 complete poll rounds may pass in which every present copy reported, under one vbUUID, persisted >= seq
	if kind != "close-waiting" {
		deliveredT := map[[2]uint64]int64{}
		for _, e := range tr.Events {
			deliveredT[[2]uint64{uint64(e.VB), e.Seq}] = e.T
		}
		var closeT int64 = 1<<62 - 1
		for _, r := range tr.Log {
			if r.K == "ctl.close.call" {
				closeT = r.T
			}
		}
		for vb, segs := range tr.Segs {
			if vb != sp.GatedVB {
				continue // other vBuckets can be held up behind the gated one on a shared DCP connection
			}
			for _, sg := range segs {
				if sg.ReplySt != 0 {
					continue
				}
				// documents are delivered; events the library absorbs (seqno-advanced, system events) reach the offset tracker
				cands := expectedDeliveries(sp, sg)
				absorbed := map[uint64]bool{}
				for _, x := range sg.Items {
					if sg.Rollback && x.Seq <= sg.FailedSeq {
						continue // replayed after a rollback: the catch-up swallows it, nothing is reported for it
					}
					if x.Kind == cbsim.KSeqnoAdv || x.Kind == cbsim.KSystem {
						cands = append(cands, x)
						absorbed[x.Seq] = true
					}
				}
				for _, it := range cands {
					until := closeT
					if absorbed[it.Seq] {
						found := false
						for _, r := range tr.Log {
							if r.K == "cons.track" && r.VB == vb && r.T > it.T && r.Seq >= it.Seq {
								until, found = r.T, true
								break
							}
						}
						if !found && ((sg.NextReqT != 0 && sg.NextReqT < closeT) || (sg.EndT != 0 && sg.EndT < closeT)) {
							continue
						}
					} else if dt, ok := deliveredT[[2]uint64{uint64(vb), it.Seq}]; ok {
						until = dt
					} else if (sg.NextReqT != 0 && sg.NextReqT < closeT) || (sg.EndT != 0 && sg.EndT < closeT) {
						continue // the stream ended before the item was delivered; a later stream re-sends it
					}
					rounds := 0
					var u uint64
					for _, rp := range replies[[2]int{vb, 0}] {
						if rp.t < it.T || rp.t > until {
							continue
						}
						good := rp.persist >= it.Seq
						if good {
							// the latest report of every copy at this moment
							for _, ix := range present[vb] {
								var last *rep
								rs := replies[[2]int{vb, ix}]
								for k := range rs {
									if rs[k].t <= rp.t {
										last = &rs[k]
									}
								}
								if last == nil || last.uuid != rp.uuid || last.persist < it.Seq {
									good = false
								}
							}
						}
						if good && (u == 0 || u == rp.uuid) {
							rounds++
							u = rp.uuid
						} else {
							rounds, u = 0, 0
						}
						if rounds >= 8 {
							break
						}
					}
					if rounds >= 8 && os.Getenv("VERIF_DBG") != "" {
						fmt.Fprintf(os.Stderr, "DBG present=%v until=%d it=%+v nreplies0=%d\n", present[vb], until, it, len(replies[[2]int{vb, 0}]))
						for k, v := range replies {
							fmt.Fprintf(os.Stderr, "DBG replies %v: %d first=%+v\n", k, len(v), v[0])
						}
					}
					if rounds >= 8 {
						fs = append(fs, Finding{"C07", "wakeup", "C07/lost-wake-up", fmt.Sprintf("vb %d seq %d (sent at tick %d): every copy kept reporting persisted >= %d under one vbUUID for %d complete poll rounds before the event was delivered or reported to the offset tracker (done: %v)", vb, it.Seq, it.T, it.Seq, rounds, until != closeT)})
						break
					}
				}
			}
		}
	}
	// the threshold applied to a stream never decreases (persist gauge across scrapes)
	prevG := map[string]float64{}
	for _, m := range tr.Metrics {
		if !m.OK {
			continue
		}
		for k, v := range m.Vals {
			if len(k) > 28 && k[:28] == "cbgo_persist_seq_no_current{" {
				if pv, ok := prevG[k]; ok && v < pv {
					fs = append(fs, Finding{"C07", "threshold", "C07/threshold-decreased", fmt.Sprintf("%s went from %v to %v", k, pv, v)})
				}
				prevG[k] = v
			}
		}
	}
	// close while waiting: nothing above the covered threshold may be delivered, Start must return
	if kind == "close-waiting" && tr.Post != nil {
		if !tr.Post.Returned {
			fs = append(fs, Finding{"C07", "close", "C07/close-while-waiting-hangs", "Close() with an event waiting in rollback mitigation: Start() did not return"})
		}
	}
	return fs, checked, waited
}

// M-asm reference-model monitor of the real NewRollbackMitigation with a harness dispatcher.
type c07Model struct {
	NumVB, Nodes, Replicas int
	Steps                  [][4]uint64 // vb, replica, uuid(0=branch), persisted
	IntervalMs             int
}

func c07RunModel(sc drv.Scenario, p *c07Model) drv.Result {
	env, err := hx.NewEnv(hx.EnvOpts{NumVB: p.NumVB, Nodes: p.Nodes, Replicas: p.Replicas})
	if err != nil {
		return drv.Result{Verdict: drv.Inconclusive, Detail: err.Error()}
	}
	defer env.Close()
	cfg := env.BaseConfig()
	cfg.RollbackMitigation.Disabled = false
	cfg.RollbackMitigation.Interval = time.Duration(p.IntervalMs) * time.Millisecond
	cfg.ApplyDefaults()
	cl := couchbase.NewClient(cfg)
	if err := cl.Connect(); err != nil {
		return drv.Result{Verdict: drv.Inconclusive, Detail: err.Error()}
	}
	defer cl.Close()
	if err := cl.DcpConnect(true, false); err != nil {
		return drv.Result{Verdict: drv.Inconclusive, Detail: err.Error()}
	}
	defer cl.DcpClose()
	present := map[int][]int{}
	state := map[[2]int][2]uint64{} // what the node answers: (uuid, persisted)
	for vb := 0; vb < p.NumVB; vb++ {
		br := env.Sim.FailoverCopy(uint16(vb))[0].UUID
		for ix, nd := range env.Sim.ReplicaNodes(uint16(vb)) {
			if nd >= 0 {
				present[vb] = append(present[vb], ix)
				env.Sim.SetObserve(uint16(vb), ix, br, 0)
				state[[2]int{vb, ix}] = [2]uint64{br, 0}
			}
		}
	}
	var mu sync.Mutex
	var disp []models.PersistSeqNo
	vbs := make([]uint16, p.NumVB)
	for i := range vbs {
		vbs[i] = uint16(i)
	}
	rm := couchbase.NewRollbackMitigation(cl, cfg, vbs, func(ps *models.PersistSeqNo) {
		mu.Lock()
		disp = append(disp, *ps)
		mu.Unlock()
		env.Log.Add(evlog.Rec{K: "rm.dispatch", VB: int(ps.VbID), Seq: uint64(ps.SeqNo)})
	})
	rm.Start()
	defer rm.Stop()
	expect := func(vb int) uint64 {
		var u, min uint64
		first := true
		for _, ix := range present[vb] {
			s := state[[2]int{vb, ix}]
			if first {
				u, min, first = s[0], s[1], false
				continue
			}
			if s[0] != u {
				return 0
			}
			if s[1] < min {
				min = s[1]
			}
		}
		return min
	}
	rounds := func(vb, n int) {
		base := len(env.Log.Filter(func(r evlog.Rec) bool {
			return r.K == "sim.tx" && r.Op == cbsim.OpObserveSeqno && r.VB == vb && r.B == 0
		}))
		hx.WaitFor(8*time.Second, func() bool {
			return len(env.Log.Filter(func(r evlog.Rec) bool {
				return r.K == "sim.tx" && r.Op == cbsim.OpObserveSeqno && r.VB == vb && r.B == 0
			}))-base >= n
		})
	}
	checks := 0
	for si, st := range p.Steps {
		vb, ix := int(st[0]), int(st[1])
		found := false
		for _, pi := range present[vb] {
			if pi == ix {
				found = true
			}
		}
		if !found {
			continue
		}
		uu := st[2]
		if uu == 0 {
			uu = env.Sim.FailoverCopy(uint16(vb))[0].UUID
		}
		old := state[[2]int{vb, ix}]
		mu.Lock()
		n0 := len(disp)
		mu.Unlock()
		env.Sim.SetObserve(uint16(vb), ix, uu, st[3])
		state[[2]int{vb, ix}] = [2]uint64{uu, st[3]}
		rounds(vb, 3)
		want := expect(vb)
		mu.Lock()
		nd := append([]models.PersistSeqNo{}, disp[n0:]...)
		mu.Unlock()
		var forVB []models.PersistSeqNo
		for _, d := range nd {
			if int(d.VbID) == vb {
				forVB = append(forVB, d)
			}
		}
		checks++
		changed := old != state[[2]int{vb, ix}]
		if !changed {
			if len(forVB) > 0 {
				return drv.Result{Verdict: drv.Violated, Clause: "model", FindingKey: "C07/model/dispatch-without-change", Detail: fmt.Sprintf("step %d: replica %d of vb %d repeated its report, yet %d value(s) were dispatched", si, ix, vb, len(forVB))}
			}
			continue
		}
		if len(forVB) == 0 {
			return drv.Result{Verdict: drv.Violated, Clause: "model", FindingKey: "C07/model/no-dispatch", Detail: fmt.Sprintf("step %d: replica %d of vb %d changed its report to (uuid %x, persisted %d) and nothing was dispatched within 3 poll rounds (expected threshold %d)", si, ix, vb, uu, st[3], want)}
		}
		got := uint64(forVB[len(forVB)-1].SeqNo)
		if got != want {
			return drv.Result{Verdict: drv.Violated, Clause: "model", FindingKey: "C07/model/threshold", Detail: fmt.Sprintf("step %d: after replica %d of vb %d reported (uuid %x, persisted %d) the dispatched threshold is %d; minimum over the copies %v under one vbUUID is %d (reports: %v)", si, ix, vb, uu, st[3], got, present[vb], want, state)}
		}
	}
	return drv.Result{Verdict: drv.Held, Checks: checks, Nontrivial: p.Replicas >= 1 && checks >= 3, TraceHash: drv.Hash("model", fmt.Sprint(p.NumVB, p.Nodes, p.Replicas, p.Steps)),
		Events: map[string]int{"rm.dispatch": len(disp), "model_steps": checks},
		Sample: map[string]any{"kind": "model", "nodes": p.Nodes, "replicas": p.Replicas, "steps": len(p.Steps), "dispatches": len(disp)}}
}

func init() {
	drv.Register(&drv.Prop{
		ID: "C07", Level: "exploration", Parallel: 12, Batch: 1, MinConclusive: 30,
		Rule: "sessions with rollback mitigation on, 1-4 nodes, 0-3 replicas, unassigned replicas, poll interval 10-30 ms; per-replica OBSERVE_SEQNO answers are scripted one replica at a time (lagging replica, repeats, vbUUID change on one copy then all, regressions, TMPFAIL/BUSY bursts, a copy that reports late, fail-over + re-open, close while an event waits). " +
			"Gate oracle: a delivery (vb,s) at tick t needs, for some vbUUID u, a reply sent before t from EVERY present copy with uuid u and persisted >= s. Wake-up: an uncovered-then-covered event must be delivered within 8 complete poll rounds. " +
			"model: the real NewRollbackMitigation with a harness dispatcher against scripted replies: dispatched value == min over present copies (0 on vbUUID disagreement), nothing dispatched for a repeated report. " +
			"Non-trivial: some event waited for >= 1 poll round; distinct = distinct abstract traces",
		Assumptions: []string{"existence of covering replies before the delivery is necessary for a correct library, whatever the reply/callback order (sound)", "replica presence is read from the simulated cluster map"},
		Gen: func(seed int64, tier string) []drv.Scenario {
			rng := rand.New(rand.NewSource(seed))
			n, nm := 120, 24
			if tier == "thorough" {
				n, nm = 2000, 300
			}
			var out []drv.Scenario
			for i := 0; i < n; i++ {
				sp, kind := c07Spec(rng, i)
				out = append(out, drv.Scenario{Kind: kind, Seed: seed, Params: mustJSON(sp), TimeoutS: 120, Solo: kind == "close-waiting"})
			}
			// the model runs draw from their own source, so that adding session kinds does not reshuffle them
			rng = rand.New(rand.NewSource(seed*7919 + 11))
			for i := 0; i < nm; i++ {
				m := &c07Model{NumVB: 1 + rng.Intn(3), Nodes: 1 + rng.Intn(4), Replicas: rng.Intn(4), IntervalMs: 10 + rng.Intn(15)}
				last := map[[2]uint64][2]uint64{} // (vb, copy) -> (uuid, persisted) it reports
				for k := 0; k < 6+rng.Intn(8); k++ {
					st := [4]uint64{uint64(rng.Intn(m.NumVB)), uint64(rng.Intn(m.Replicas + 1)), 0, uint64(1 + rng.Intn(50))}
					cur := last[[2]uint64{st[0], st[1]}]
					switch rng.Intn(8) {
					case 0:
						st[2] = 0xbeef
					case 1:
						if k > 0 {
							st = m.Steps[k-1] // repeat
						}
					case 2, 3:
						// only the vbUUID changes, the persisted seqno stays what this copy reported last: the step in
						// which the last disagreeing copy joins the others looks like this
						if cur[1] > 0 {
							st[3] = cur[1]
							if cur[0] == 0 {
								st[2] = 0xbeef
							}
						}
					case 4:
						st[2] = cur[0] // only the persisted seqno changes
					}
					last[[2]uint64{st[0], st[1]}] = [2]uint64{st[2], st[3]}
					m.Steps = append(m.Steps, st)
				}
				if i%3 == 0 && m.Replicas >= 1 {
					// every copy of vBucket 0 moves to the new branch one after the other at unchanged seqnos
					for ix := 0; ix <= m.Replicas; ix++ {
						cur := last[[2]uint64{0, uint64(ix)}]
						if cur[1] == 0 {
							cur[1] = uint64(1 + rng.Intn(50))
							m.Steps = append(m.Steps, [4]uint64{0, uint64(ix), cur[0], cur[1]})
						}
						last[[2]uint64{0, uint64(ix)}] = cur
					}
					for ix := 0; ix <= m.Replicas; ix++ {
						cur := last[[2]uint64{0, uint64(ix)}]
						m.Steps = append(m.Steps, [4]uint64{0, uint64(ix), 0xfeed, cur[1]})
					}
				}
				out = append(out, drv.Scenario{Kind: "model", Seed: seed, Params: mustJSON(m), TimeoutS: 120})
			}
			return out
		},
		Run: func(sc drv.Scenario) drv.Result {
			if sc.Kind == "model" {
				var m c07Model
				if err := json.Unmarshal(sc.Params, &m); err != nil {
					return drv.Result{Verdict: drv.Inconclusive, Detail: err.Error()}
				}
				return c07RunModel(sc, &m)
			}
			var sp SessSpec
			if err := json.Unmarshal(sc.Params, &sp); err != nil {
				return drv.Result{Verdict: drv.Inconclusive, Detail: err.Error()}
			}
			tr := RunSession(&sp)
			if tr.StartErr != "" {
				return drv.Result{Verdict: drv.Inconclusive, Detail: tr.StartErr}
			}
			fs, n, waited := OracleGate(tr, sc.Kind)
			sample := map[string]any{"kind": sc.Kind, "nodes": sp.Nodes, "replicas": sp.Replicas, "vbuckets": sp.NumVB, "deliveries_checked": n, "observe_replies": tr.countOp(cbsim.OpObserveSeqno), "some_event_waited": waited}
			r := sessionResult("C07", tr, fs, waited, sample)
			if sc.Kind == "close-waiting" && r.Verdict == drv.Inconclusive {
				r.Verdict, r.Detail = drv.Held, ""
			}
			r.Checks = n
			r.Events["observe_replies"] = tr.countOp(cbsim.OpObserveSeqno)
			return r
		},
		OnDeath: func(sc drv.Scenario, out drv.ChildOutcome) drv.Result {
			return drv.Result{Verdict: drv.Inconclusive, Detail: "child died: " + drv.PanicLine(out.Stderr), Foreign: []string{"process death: " + drv.PanicLine(out.Stderr)}}
		},
	})
}
