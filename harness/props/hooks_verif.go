//go:build verif

package props

import (
	"time"

	"github.com/Trendyol/go-dcp/stream"

	"verif/harness/evlog"
)

// setHookDelays installs injected delays at the library's hook points (guarded by the verif build tag in
// /repo: stream/verif_hook_on.go). A delay stands for a goroutine that is descheduled at that point.
func setHookDelays(l *evlog.Log, d map[string]int) {
	if len(d) == 0 {
		stream.VerifHook = nil
		return
	}
	stream.VerifHook = func(point string) {
		ms := d[point]
		l.Add(evlog.Rec{K: "hook." + point, VB: -1, A: uint64(ms)})
		if ms > 0 {
			time.Sleep(time.Duration(ms) * time.Millisecond)
			l.Add(evlog.Rec{K: "hook." + point + ".resume", VB: -1})
		}
	}
}
