//go:build verif

package props

import (
	"sync"
	"time"

	"github.com/Trendyol/go-dcp/stream"

	"verif/harness/evlog"
)

// Injected delays at the library's hook points (guarded by the verif build tag in /repo:
// stream/verif_hook_on.go). A delay stands for a goroutine that is descheduled at that point.
var hookMu sync.Mutex
var hookArmed = map[string][2]int{} // point -> (remaining hits, ms): one-shot delays armed by a step

// setHookDelays installs constant delays (point -> ms, every hit) and enables one-shot arming.
func setHookDelays(l *evlog.Log, d map[string]int) {
	hookMu.Lock()
	hookArmed = map[string][2]int{}
	hookMu.Unlock()
	if l == nil {
		stream.VerifHook = nil
		return
	}
	stream.VerifHook = func(point string) {
		ms := d[point]
		hookMu.Lock()
		if a, ok := hookArmed[point]; ok && a[0] > 0 {
			ms = a[1]
			hookArmed[point] = [2]int{a[0] - 1, a[1]}
		}
		hookMu.Unlock()
		if ms > 0 {
			l.Add(evlog.Rec{K: "hook." + point, VB: -1, A: uint64(ms)})
			time.Sleep(time.Duration(ms) * time.Millisecond)
			l.Add(evlog.Rec{K: "hook." + point + ".resume", VB: -1})
		}
	}
}

// armHook: the next n hits of point sleep ms.
func armHook(point string, n, ms int) {
	hookMu.Lock()
	hookArmed[point] = [2]int{n, ms}
	hookMu.Unlock()
}
