package props

import (
	"encoding/json"
	"errors"
	"fmt"
	"math/rand"
	"sort"
	"strings"
	"sync"
	"time"

	"github.com/Trendyol/go-dcp/config"
	"github.com/Trendyol/go-dcp/couchbase"
	"github.com/Trendyol/go-dcp/helpers"
	"github.com/Trendyol/go-dcp/membership"
	"github.com/Trendyol/go-dcp/models"
	"github.com/Trendyol/go-dcp/servicediscovery"
	"github.com/Trendyol/go-dcp/stream"
	"github.com/asaskevich/EventBus"

	"verif/harness/cbsim"
	"verif/harness/drv"
	"verif/harness/evlog"
	"verif/harness/hx"
)

// C10 — group members derive a consistent, collision-free numbering.

type c10Params struct {
	Actions   []c10Action   `json:"actions,omitempty"`   // couchbase type: join / leave sequences separated by quiescent periods
	Hold      string        `json:"hold,omitempty"`      // "" | "replace" (hold a survivor's monitor round across a death+join) | "cas" (delay one survivor's index rewrite)
	Followers []c10Follower `json:"followers,omitempty"` // leader-assigned
	// EarlyRegister: the followers that join at second 0 register (rpc server is listening from the start) BEFORE the election
	// callback makes this instance the leader
	EarlyRegister bool     `json:"early_register,omitempty"`
	Static        bool     `json:"static,omitempty"`
	Dynamic       [][2]int `json:"dynamic,omitempty"`
	// DynamicWindow: the first numbering is published exactly while GetInfo() is between its nil check and its
	// channel receive (the point where it logs "waiting first request")
	DynamicWindow     [2]int `json:"dynamic_window,omitempty"`
	FollowerNumbering [2]int `json:"follower_numbering,omitempty"`
	// DynamicBurstFirst: that many numberings of the dynamic sequence are published before GetInfo() is called at all
	DynamicBurstFirst int `json:"dynamic_burst_first,omitempty"`
}

type c10Action struct {
	Op string `json:"op"` // join leave quiesce
	I  int    `json:"i"`
}

type c10Follower struct {
	Name          string `json:"name"`
	JoinAt        int    `json:"join_at"`                   // seconds after start
	PingFailFrom  int    `json:"ping_fail_from"`            // seconds after start from which pings fail (0 = never)
	RebalErrors   int    `json:"rebal_errors"`              // the first n Rebalance calls return an error
	RestartInPing bool   `json:"restart_in_ping,omitempty"` // the new process registers while the leader's heart-beat round is still waiting for the dead connection's ping to fail
	// Reconnect: it is the same process that registers again at RestartAt (its connection to the leader broke): same name, same join time
	Reconnect bool `json:"reconnect,omitempty"`
	RestartAt int  `json:"restart_at,omitempty"` // seconds after start at which the follower's process is replaced: the old connection is dead from then on, the new process registers under the same name
}

type c10Inst struct {
	idx    int
	client couchbase.Client
	bus    EventBus.Bus
	m      membership.Membership
	mu     sync.Mutex
	events []membership.Model
	joined time.Time
	alive  bool
}

func (in *c10Inst) last() (membership.Model, bool) {
	in.mu.Lock()
	defer in.mu.Unlock()
	if len(in.events) == 0 {
		return membership.Model{}, false
	}
	return in.events[len(in.events)-1], true
}

func c10Cfg(env *hx.Env) *config.Dcp {
	cfg := env.BaseConfig()
	cfg.Dcp.Group.Membership.Type = "couchbase"
	cfg.Dcp.Group.Membership.RebalanceDelay = 10 * time.Millisecond
	cfg.Dcp.Group.Membership.Config = map[string]string{"heartbeatInterval": "20ms", "heartbeatToleranceDuration": "300ms", "monitorInterval": "25ms", "timeout": "2s", "expirySeconds": "2"}
	cfg.ApplyDefaults()
	return cfg
}

func c10RunCouchbase(sc drv.Scenario, p *c10Params) drv.Result {
	env, err := hx.NewEnv(hx.EnvOpts{NumVB: 8})
	if err != nil {
		return drv.Result{Verdict: drv.Inconclusive, Detail: err.Error()}
	}
	defer env.Close()
	insts := map[int]*c10Inst{}
	var order []int // join order of currently alive instances
	res := drv.Result{Verdict: drv.Held, Events: map[string]int{}, Nontrivial: false}
	viol := func(clause, detail string) drv.Result {
		res.Verdict, res.Clause, res.FindingKey, res.Detail = drv.Violated, clause, "C10/"+clause, detail
		return res
	}
	// sim hooks for the two adversarial schedules
	var hmu sync.Mutex
	connOf := map[int]int{} // instance -> connection id of its KV connection (learned from its register write)
	holdGet := map[int]chan struct{}{}
	failGet := map[int]int{}  // instance -> number of its next reads of a peer's instance document that are answered with an error status
	stalled := map[int]bool{} // instances whose heartbeat writes are refused (stalled process / KV time-outs)
	delayIdxWrite := map[int]time.Duration{}
	indexKey := "_connector:cbgo:g1:instance:all"
	env.Sim.Hook = func(r *cbsim.Req) *cbsim.Action {
		hmu.Lock()
		defer hmu.Unlock()
		if r.Op == cbsim.OpGet && string(r.Key) == indexKey {
			for i, ch := range holdGet {
				if connOf[i] == r.ConnID && ch != nil {
					env.Log.Add(evlog.Rec{K: "sim.holdget", VB: -1, A: uint64(i)})
					return &cbsim.Action{Hold: ch, Async: true}
				}
			}
		}
		if r.Op == cbsim.OpGet && string(r.Key) != indexKey && strings.Contains(string(r.Key), ":instance:") {
			for i, n := range failGet {
				if n > 0 && connOf[i] == r.ConnID {
					failGet[i] = n - 1
					env.Log.Add(evlog.Rec{K: "sim.failget", VB: -1, A: uint64(i), S: string(r.Key)})
					return &cbsim.Action{HasStatus: true, Status: 0x84} // an error status, not "no such document"
				}
			}
		}
		if r.Op != cbsim.OpGet && string(r.Key) != indexKey && strings.Contains(string(r.Key), ":instance:") {
			for i, st := range stalled {
				if st && connOf[i] == r.ConnID {
					return &cbsim.Action{HasStatus: true, Status: 0x86}
				}
			}
		}
		if r.Op == cbsim.OpSubdocMutate && string(r.Key) == indexKey && r.Cas != 0 {
			for i, d := range delayIdxWrite {
				if connOf[i] == r.ConnID && d > 0 {
					delete(delayIdxWrite, i)
					return &cbsim.Action{Delay: d}
				}
			}
		}
		return nil
	}
	join := func(i int) error {
		cfg := c10Cfg(env)
		cl := couchbase.NewClient(cfg)
		if err := cl.Connect(); err != nil {
			return err
		}
		in := &c10Inst{idx: i, client: cl, bus: EventBus.New(), alive: true}
		_ = in.bus.Subscribe(helpers.MembershipChangedBusEventName, func(m *membership.Model) {
			in.mu.Lock()
			in.events = append(in.events, *m)
			in.mu.Unlock()
			env.Log.Add(evlog.Rec{K: "mb.announce", VB: -1, A: uint64(i), B: uint64(m.MemberNumber), C: uint64(m.TotalMembers)})
		})
		before := env.Log.Len()
		in.m = couchbase.NewCBMembership(cfg, cl, in.bus)
		in.joined = time.Now()
		// learn this instance's KV connection from its register traffic
		for _, r := range env.Log.Snapshot()[before:] {
			if r.K == "sim.rx" && (r.Op == cbsim.OpSubdocMutate || r.Op == cbsim.OpSet) && strings.Contains(r.S, ":instance:") {
				hmu.Lock()
				connOf[i] = r.Cn
				hmu.Unlock()
			}
		}
		insts[i] = in
		order = append(order, i)
		env.Log.Add(evlog.Rec{K: "mb.join", VB: -1, A: uint64(i)})
		return nil
	}
	leave := func(i int) {
		in := insts[i]
		if in == nil || !in.alive {
			return
		}
		in.m.Close()
		in.alive = false
		for k, v := range order {
			if v == i {
				order = append(order[:k], order[k+1:]...)
				break
			}
		}
		env.Log.Add(evlog.Rec{K: "mb.leave", VB: -1, A: uint64(i)})
	}
	idxReads := func() int {
		return len(env.Log.Filter(func(r evlog.Rec) bool { return r.K == "sim.rx" && r.Op == cbsim.OpGet && r.S == indexKey }))
	}
	quiesce := func(step int) *drv.Result {
		// bounded convergence: tolerance (300 ms) + heartbeat + R = 24 monitor rounds of every live instance
		want := map[int][2]int{}
		for pos, i := range order {
			want[i] = [2]int{pos + 1, len(order)}
		}
		base := idxReads()
		deadline := time.Now().Add(6 * time.Second)
		ok := false
		for time.Now().Before(deadline) {
			ok = true
			for i, w := range want {
				l, has := insts[i].last()
				if !has || l.MemberNumber != w[0] || l.TotalMembers != w[1] {
					ok = false
				}
			}
			rounds := 0
			if len(order) > 0 {
				rounds = (idxReads() - base) / len(order)
			}
			if ok && rounds >= 6 {
				break
			}
			if !ok && rounds >= 40 && time.Since(deadline.Add(-6*time.Second)) > 1200*time.Millisecond {
				break
			}
			time.Sleep(10 * time.Millisecond)
		}
		res.Checks++
		rounds := 0
		if len(order) > 0 {
			rounds = (idxReads() - base) / len(order)
		}
		if !ok {
			var got []string
			for _, i := range order {
				l, has := insts[i].last()
				got = append(got, fmt.Sprintf("inst%d=%d/%d(%v)", i, l.MemberNumber, l.TotalMembers, has))
			}
			if rounds < 30 {
				r := drv.Result{Verdict: drv.Inconclusive, Detail: fmt.Sprintf("only %d monitor rounds observed", rounds)}
				return &r
			}
			// classify
			sizes := map[int]bool{}
			nums := map[int]int{}
			for _, i := range order {
				l, _ := insts[i].last()
				sizes[l.TotalMembers] = true
				nums[l.MemberNumber]++
			}
			clause := "numbering"
			switch {
			case len(sizes) > 1:
				clause = "inconsistent-size"
			default:
				for _, c := range nums {
					if c > 1 {
						clause = "collision"
					}
				}
			}
			v := viol(clause, fmt.Sprintf("step %d: after %d monitor rounds per live instance the group is %v; expected join-order numbering %v", step, rounds, got, want))
			return &v
		}
		// stay quiet: no further announcements during 8 more rounds
		n0 := env.Log.Count("mb.announce")
		b2 := idxReads()
		hx.WaitFor(3*time.Second, func() bool { return len(order) == 0 || (idxReads()-b2)/len(order) >= 8 })
		if n := env.Log.Count("mb.announce") - n0; n > 0 {
			v := viol("announce-without-change", fmt.Sprintf("step %d: group stable, yet %d further announcement(s) were published", step, n))
			return &v
		}
		return nil
	}
	for si, a := range p.Actions {
		switch a.Op {
		case "join":
			if err := join(a.I); err != nil {
				return drv.Result{Verdict: drv.Inconclusive, Detail: err.Error()}
			}
			time.Sleep(8 * time.Millisecond) // join times come from the library's clock: keep the order unambiguous
		case "getfail":
			// one read of a (live) peer's instance document by instance a.I is answered with an error status: the reader either
			// stops (it cannot tell who is alive) or carries on with the group as it is - it must not take the peer for gone
			drv.NoteFlush("getfail inst%d", a.I)
			hmu.Lock()
			failGet[a.I] = 1
			hmu.Unlock()
			hx.WaitFor(3*time.Second, func() bool { return env.Log.Count("sim.failget") > 0 })
			time.Sleep(300 * time.Millisecond)
		case "idle":
			time.Sleep(2700 * time.Millisecond) // expirySeconds is 2
		case "leave":
			leave(a.I)
		case "replace":
			// survivor order[0]'s next monitor round is held while instance a.I dies and a new one joins: it then sees
			// a different instance set but its own (number, size) is unchanged
			surv := order[0]
			ch := make(chan struct{})
			hmu.Lock()
			holdGet[surv] = ch
			hmu.Unlock()
			hx.WaitFor(2*time.Second, func() bool { return env.Log.Count("sim.holdget") > 0 })
			leave(a.I)
			time.Sleep(380 * time.Millisecond) // heartbeat tolerance passes
			if err := join(100 + a.I); err != nil {
				return drv.Result{Verdict: drv.Inconclusive, Detail: err.Error()}
			}
			time.Sleep(60 * time.Millisecond)
			hmu.Lock()
			holdGet[surv] = nil
			hmu.Unlock()
			close(ch)
		case "casrace":
			// a member dies; the index rewrite of survivor order[0] is delayed so that it loses the CAS race
			surv := order[0]
			if surv == a.I && len(order) > 1 {
				surv = order[1]
			}
			hmu.Lock()
			delayIdxWrite[surv] = 60 * time.Millisecond
			hmu.Unlock()
			leave(a.I)
		case "stall":
			// the instance's heartbeat document is not refreshed for longer than interval + tolerance while the others keep
			// monitoring (they drop it from the index); then its heartbeats work again. The library's answer is fail-stop:
			// the dropped instance panics ("cant find self in cluster") so that its supervisor restarts it as a fresh instance.
			drv.NoteFlush("stall inst%d", a.I)
			hmu.Lock()
			stalled[a.I] = true
			hmu.Unlock()
			time.Sleep(520 * time.Millisecond)
			hmu.Lock()
			stalled[a.I] = false
			hmu.Unlock()
			time.Sleep(400 * time.Millisecond)
			// still here: the instance did not stop. It is alive and heart-beating, so it belongs to the group
		case "quiesce":
			if r := quiesce(si); r != nil {
				return *r
			}
		}
	}
	// announcements: never two equal in a row per instance
	for i, in := range insts {
		in.mu.Lock()
		for k := 1; k < len(in.events); k++ {
			if in.events[k] == in.events[k-1] {
				in.mu.Unlock()
				return viol("repeated-announcement", fmt.Sprintf("instance %d announced %d/%d twice in a row (announcements: %v)", i, in.events[k].MemberNumber, in.events[k].TotalMembers, in.events))
			}
		}
		in.mu.Unlock()
	}
	deaths, joinsAfter := 0, 0
	for _, a := range p.Actions {
		if a.Op == "leave" || a.Op == "replace" || a.Op == "casrace" {
			deaths++
		}
		if a.Op == "join" && deaths > 0 {
			joinsAfter++
		}
	}
	res.Nontrivial = deaths >= 1 && (joinsAfter >= 1 || p.Hold != "")
	var acts []string
	for _, a := range p.Actions {
		acts = append(acts, fmt.Sprintf("%s%d", a.Op, a.I))
	}
	res.TraceHash = drv.Hash("cb", strings.Join(acts, ","))
	res.Events["announcements"] = env.Log.Count("mb.announce")
	res.Events["index_reads"] = idxReads()
	var fin []string
	for _, i := range order {
		l, _ := insts[i].last()
		fin = append(fin, fmt.Sprintf("inst%d=%d/%d", i, l.MemberNumber, l.TotalMembers))
	}
	res.Sample = map[string]any{"kind": "couchbase", "actions": strings.Join(acts, " "), "final_numbering": fin, "announcements": env.Log.Count("mb.announce")}
	for _, in := range insts {
		if in.alive {
			in.m.Close()
		}
	}
	time.Sleep(200 * time.Millisecond) // let monitor rounds in flight finish before the connections go away
	for _, in := range insts {
		in.client.Close()
	}
	return res
}

// ---- leader-assigned --------------------------------------------------------------------------------

type fakeFollower struct {
	mu       sync.Mutex
	name     string
	start    time.Time
	failFrom int
	rebalErr int
	got      [][2]int
	ok       [][2]int
	pings    int
	closed   bool
	dead     bool
	holdPing chan struct{} // a ping of the dead connection blocks here (a ping that takes its time to fail)
	inPing   bool
}

func (f *fakeFollower) Close() error { f.mu.Lock(); f.closed = true; f.mu.Unlock(); return nil }
func (f *fakeFollower) Ping() error {
	f.mu.Lock()
	defer f.mu.Unlock()
	f.pings++
	if f.dead {
		if h := f.holdPing; h != nil {
			f.inPing = true
			f.mu.Unlock()
			<-h
			f.mu.Lock()
		}
		return errors.New("connection is shut down")
	}
	if f.failFrom > 0 && time.Since(f.start) > time.Duration(f.failFrom)*time.Second {
		return errors.New("scripted ping failure")
	}
	return nil
}
func (f *fakeFollower) Register() error   { return nil }
func (f *fakeFollower) IsConnected() bool { return true }
func (f *fakeFollower) Reconnect() error  { return nil }
func (f *fakeFollower) Rebalance(m, t int) error {
	f.mu.Lock()
	defer f.mu.Unlock()
	if f.dead {
		return errors.New("connection is shut down")
	}
	f.got = append(f.got, [2]int{m, t})
	if f.rebalErr > 0 {
		f.rebalErr--
		return errors.New("scripted rebalance failure")
	}
	f.ok = append(f.ok, [2]int{m, t})
	return nil
}

func c10RunLeader(sc drv.Scenario, p *c10Params) drv.Result {
	hx.QuietLogger()
	cfg := &config.Dcp{}
	cfg.Dcp.Group.Membership.RebalanceDelay = 10 * time.Millisecond
	bus := EventBus.New()
	var mu sync.Mutex
	var ann []membership.Model
	_ = bus.Subscribe(helpers.MembershipChangedBusEventName, func(m *membership.Model) {
		mu.Lock()
		ann = append(ann, *m)
		mu.Unlock()
	})
	sd := servicediscovery.NewServiceDiscovery(cfg, bus)
	start := time.Now()
	fol := map[string]*fakeFollower{}
	added := map[string]bool{}
	joinTime := map[string]int64{}
	if p.EarlyRegister {
		for _, f := range p.Followers {
			if f.JoinAt == 0 {
				ff := &fakeFollower{name: f.Name, start: start, failFrom: f.PingFailFrom, rebalErr: f.RebalErrors}
				fol[f.Name] = ff
				joinTime[f.Name] = time.Now().UnixNano()
				sd.Add(servicediscovery.NewService(ff, f.Name, joinTime[f.Name]))
				added[f.Name] = true
			}
		}
		time.Sleep(20 * time.Millisecond)
	}
	// the library's own election callback (stream.NewLeaderElection(...).OnBecomeLeader), as the elector invokes it
	if h, ok := stream.NewLeaderElection(cfg, sd, bus).(interface{ OnBecomeLeader() }); ok {
		h.OnBecomeLeader()
	} else {
		sd.BeLeader()
	}
	sd.StartHeartbeat()
	sd.StartMonitor()
	defer sd.StopMonitor()
	defer sd.StopHeartbeat()
	maxT := 0
	for _, f := range p.Followers {
		if f.JoinAt > maxT {
			maxT = f.JoinAt
		}
		if f.PingFailFrom > maxT {
			maxT = f.PingFailFrom
		}
	}
	for _, f := range p.Followers {
		if f.RestartAt > maxT {
			maxT = f.RestartAt
		}
	}
	restarted := map[string]bool{}
	total := maxT + 23 // two further heartbeat + monitor rounds (hard-coded 5 s) after the last change, plus retries
	for time.Since(start) < time.Duration(total)*time.Second {
		for _, f := range p.Followers {
			if !added[f.Name] && time.Since(start) >= time.Duration(f.JoinAt)*time.Second {
				ff := &fakeFollower{name: f.Name, start: start, failFrom: f.PingFailFrom, rebalErr: f.RebalErrors}
				fol[f.Name] = ff
				joinTime[f.Name] = time.Now().UnixNano()
				sd.Add(servicediscovery.NewService(ff, f.Name, joinTime[f.Name]))
				added[f.Name] = true
			}
			if f.RestartAt > 0 && added[f.Name] && !restarted[f.Name] && time.Since(start) >= time.Duration(f.RestartAt)*time.Second {
				// the follower's process is replaced: the leader's connection to the old one is dead, the new one registers under the same name
				old := fol[f.Name]
				old.mu.Lock()
				old.dead = true
				var hold chan struct{}
				if f.RestartInPing {
					hold = make(chan struct{})
					old.holdPing = hold
				}
				old.mu.Unlock()
				if hold != nil {
					// wait until the leader's heart-beat round is inside the ping of the dead connection, register the new
					// process, then let the ping fail
					deadline := time.Now().Add(8 * time.Second)
					for time.Now().Before(deadline) {
						old.mu.Lock()
						in := old.inPing
						old.mu.Unlock()
						if in {
							break
						}
						time.Sleep(5 * time.Millisecond)
					}
				}
				ff := &fakeFollower{name: f.Name, start: start}
				fol[f.Name] = ff
				jt := time.Now().UnixNano()
				if f.Reconnect && joinTime[f.Name] != 0 {
					jt = joinTime[f.Name] // the same process: it registers with the join time it has always had
				}
				sd.Add(servicediscovery.NewService(ff, f.Name, jt))
				restarted[f.Name] = true
				if hold != nil {
					close(hold)
				}
			}
		}
		time.Sleep(50 * time.Millisecond)
	}
	res := drv.Result{Verdict: drv.Held, Checks: 1, Events: map[string]int{}}
	viol := func(clause, detail string) drv.Result {
		res.Verdict, res.Clause, res.FindingKey, res.Detail = drv.Violated, clause, "C10/leader/"+clause, detail
		return res
	}
	// expected live followers in join order
	var live []c10Follower
	for _, f := range p.Followers {
		if f.PingFailFrom == 0 {
			live = append(live, f)
		}
	}
	eff := func(f c10Follower) int { // the join time the leader knows: that of the latest registration
		if f.RestartAt > 0 && !f.Reconnect {
			return f.RestartAt
		}
		return f.JoinAt
	}
	sort.SliceStable(live, func(i, j int) bool { return eff(live[i]) < eff(live[j]) })
	size := len(live) + 1
	mu.Lock()
	a := append([]membership.Model{}, ann...)
	mu.Unlock()
	if len(a) == 0 || a[len(a)-1] != (membership.Model{MemberNumber: 1, TotalMembers: size}) {
		return viol("leader-numbering", fmt.Sprintf("leader's last announcement %v, expected 1/%d (followers %+v)", a, size, p.Followers))
	}
	for k := 1; k < len(a); k++ {
		if a[k] == a[k-1] {
			return viol("repeated-announcement", fmt.Sprintf("leader announced %d/%d twice in a row: %v", a[k].MemberNumber, a[k].TotalMembers, a))
		}
	}
	seen := map[int]string{1: "leader"}
	var fin []string
	for pos, f := range live {
		ff := fol[f.Name]
		ff.mu.Lock()
		ok := append([][2]int{}, ff.ok...)
		got := append([][2]int{}, ff.got...)
		ff.mu.Unlock()
		if len(ok) == 0 {
			return viol("follower-not-told", fmt.Sprintf("follower %s never received a numbering successfully (calls %v)", f.Name, got))
		}
		last := ok[len(ok)-1]
		fin = append(fin, fmt.Sprintf("%s=%d/%d", f.Name, last[0], last[1]))
		if last[1] != size {
			return viol("inconsistent-size", fmt.Sprintf("follower %s was last told %d/%d, the group size is %d (all calls: %v)", f.Name, last[0], last[1], size, got))
		}
		if other, dup := seen[last[0]]; dup {
			return viol("collision", fmt.Sprintf("follower %s and %s both hold number %d", f.Name, other, last[0]))
		}
		seen[last[0]] = f.Name
		if last[0] != pos+2 {
			return viol("join-order", fmt.Sprintf("follower %s (join position %d) holds number %d, expected %d", f.Name, pos+1, last[0], pos+2))
		}
	}
	nfail, nerr := 0, 0
	for _, f := range p.Followers {
		if f.PingFailFrom > 0 {
			nfail++
		}
		nerr += f.RebalErrors
	}
	for _, f := range p.Followers {
		if f.RestartAt > 0 {
			nfail++
		}
	}
	res.Nontrivial = nfail > 0 || nerr > 0
	res.TraceHash = drv.Hash("leader", fmt.Sprint(p.Followers))
	res.Events["leader_announcements"] = len(a)
	res.Sample = map[string]any{"kind": "leader", "followers": p.Followers, "final_numbering": fin, "leader_announcements": fmt.Sprint(a)}
	return res
}

// fakeLeader is the follower's rpc client towards the leader. Like the real client it keeps saying IsConnected() until it is
// closed; a broken connection shows only in failing calls and heals by Reconnect().
type fakeLeader struct {
	mu                              sync.Mutex
	broken                          bool
	pings, reconnects, registersOK  int
	registersFailed, pingsAfterHeal int
	closed                          bool
}

func (f *fakeLeader) Close() error { f.mu.Lock(); f.closed = true; f.mu.Unlock(); return nil }
func (f *fakeLeader) Ping() error {
	f.mu.Lock()
	defer f.mu.Unlock()
	f.pings++
	if f.broken {
		return errors.New("connection is shut down")
	}
	if f.reconnects > 0 {
		f.pingsAfterHeal++
	}
	return nil
}
func (f *fakeLeader) Register() error {
	f.mu.Lock()
	defer f.mu.Unlock()
	if f.broken {
		f.registersFailed++
		return errors.New("connection is shut down")
	}
	f.registersOK++
	return nil
}
func (f *fakeLeader) IsConnected() bool { f.mu.Lock(); defer f.mu.Unlock(); return !f.closed }
func (f *fakeLeader) Reconnect() error {
	f.mu.Lock()
	defer f.mu.Unlock()
	f.broken = false
	f.reconnects++
	return nil
}
func (f *fakeLeader) Rebalance(m, t int) error { return nil }

// c10RunFollower: the real serviceDiscovery on the follower's side.
func c10RunFollower(sc drv.Scenario, p *c10Params) drv.Result {
	hx.QuietLogger()
	cfg := &config.Dcp{}
	bus := EventBus.New()
	var mu sync.Mutex
	var ann []membership.Model
	_ = bus.Subscribe(helpers.MembershipChangedBusEventName, func(m *membership.Model) {
		mu.Lock()
		ann = append(ann, *m)
		mu.Unlock()
	})
	sd := servicediscovery.NewServiceDiscovery(cfg, bus)
	ld := &fakeLeader{}
	sd.AssignLeader(servicediscovery.NewService(ld, "leader", time.Now().UnixNano()))
	sd.StartHeartbeat()
	defer sd.StopHeartbeat()
	res := drv.Result{Verdict: drv.Held, Checks: 1, Nontrivial: true, Events: map[string]int{}, TraceHash: drv.Hash("follower", fmt.Sprint(p.FollowerNumbering))}
	viol := func(clause, detail string) drv.Result {
		res.Verdict, res.Clause, res.FindingKey, res.Detail = drv.Violated, clause, "C10/follower/"+clause, detail
		return res
	}
	n, t := p.FollowerNumbering[0], p.FollowerNumbering[1]
	sd.SetInfo(n, t) // the leader's push
	// the connection to the leader breaks (the leader has lost the registration as well): the follower's next heart-beat
	// round must re-dial and register again
	time.Sleep(time.Duration(500+100*(n%5)) * time.Millisecond)
	ld.mu.Lock()
	ld.broken = true
	ld.mu.Unlock()
	healed := hx.WaitFor(17*time.Second, func() bool {
		ld.mu.Lock()
		defer ld.mu.Unlock()
		return ld.registersOK > 0 && ld.pingsAfterHeal > 0
	})
	ld.mu.Lock()
	st := fmt.Sprintf("pings=%d reconnects=%d registers ok=%d failed=%d pings after the reconnect=%d closed=%v", ld.pings, ld.reconnects, ld.registersOK, ld.registersFailed, ld.pingsAfterHeal, ld.closed)
	ld.mu.Unlock()
	if !healed {
		return viol("not-readmitted", "the connection to the leader broke; within three heart-beat rounds the follower did not re-dial, register again and go on pinging the leader: "+st)
	}
	// a leader change after which the new leader pushes the numbering this member already has: no announcement
	mu.Lock()
	before := len(ann)
	mu.Unlock()
	sd.RemoveLeader()
	sd.AssignLeader(servicediscovery.NewService(&fakeLeader{}, "leader-2", time.Now().UnixNano()))
	sd.SetInfo(n, t)
	bus.WaitAsync()
	mu.Lock()
	after := len(ann)
	all := fmt.Sprint(ann)
	mu.Unlock()
	if after != before {
		return viol("repeated-announcement", fmt.Sprintf("after a leader change the new leader pushed the unchanged numbering %d/%d and it was announced again (announcements: %s)", n, t, all))
	}
	res.Sample = map[string]any{"kind": "follower", "numbering": p.FollowerNumbering, "leader_client": st, "announcements": all}
	return res
}

func c10RunSmall(sc drv.Scenario, p *c10Params) drv.Result {
	hx.QuietLogger()
	res := drv.Result{Verdict: drv.Held, Events: map[string]int{}, Nontrivial: true}
	if p.Static {
		for t := 1; t <= 8; t++ {
			for m := 1; m <= t; m++ {
				cfg := &config.Dcp{}
				cfg.Dcp.Group.Membership.MemberNumber, cfg.Dcp.Group.Membership.TotalMembers = m, t
				ms := membership.NewStaticMembership(cfg)
				res.Checks++
				if i := ms.GetInfo(); i.MemberNumber != m || i.TotalMembers != t {
					return drv.Result{Verdict: drv.Violated, Clause: "static", FindingKey: "C10/static", Detail: fmt.Sprintf("static %d/%d reported as %d/%d", m, t, i.MemberNumber, i.TotalMembers)}
				}
			}
		}
		res.SubEvals, res.SubDistinct, res.TraceHash = res.Checks, res.Checks, "static"
		res.Sample = map[string]any{"kind": "static", "pairs": res.Checks}
		return res
	}
	if p.DynamicWindow[1] != 0 {
		// the first PUT /membership/info is handled exactly between GetInfo()'s nil check and its channel receive:
		// the library logs "waiting first request" there, and the log hook publishes the numbering as api.info does
		bus := EventBus.New()
		dm := membership.NewDynamicMembership(bus)
		want := membership.Model{MemberNumber: p.DynamicWindow[0], TotalMembers: p.DynamicWindow[1]}
		fired := false
		hx.LogHook = func(line string) {
			if !fired && strings.Contains(line, "dynamic membership waiting first request") {
				fired = true
				m := want
				bus.Publish(helpers.MembershipChangedBusEventName, &m)
			}
		}
		defer func() { hx.LogHook = nil }()
		got := make(chan *membership.Model, 1)
		go func() { got <- dm.GetInfo() }()
		res.Checks = 1
		res.TraceHash = drv.Hash("dynamic-window", fmt.Sprint(p.DynamicWindow))
		res.Sample = map[string]any{"kind": "dynamic-window", "first_info": p.DynamicWindow, "published_inside_window": true}
		select {
		case g := <-got:
			if g == nil || *g != want {
				return drv.Result{Verdict: drv.Violated, Clause: "dynamic", FindingKey: "C10/dynamic/first-info", Detail: fmt.Sprintf("first numbering %v published while GetInfo() was about to wait; GetInfo() returned %v", want, g)}
			}
		case <-time.After(5 * time.Second):
			if !fired {
				return drv.Result{Verdict: drv.Inconclusive, Detail: "GetInfo() never logged that it waits: the window was not reached"}
			}
			// a later, different numbering does not wake it up either?
			m2 := membership.Model{MemberNumber: 1, TotalMembers: want.TotalMembers + 1}
			bus.Publish(helpers.MembershipChangedBusEventName, &m2)
			woke := false
			select {
			case <-got:
				woke = true
			case <-time.After(time.Second):
			}
			return drv.Result{Verdict: drv.Violated, Clause: "dynamic", FindingKey: "C10/dynamic/first-info-lost", Detail: fmt.Sprintf("the first numbering %v was published while GetInfo() was between its check and its wait: GetInfo() still blocked 5 s later (the instance never opens its stream); a later numbering woke it: %v", want, woke)}
		}
		return res
	}
	bus := EventBus.New()
	dm := membership.NewDynamicMembership(bus)
	for i, v := range p.Dynamic {
		bus.Publish(helpers.MembershipChangedBusEventName, &membership.Model{MemberNumber: v[0], TotalMembers: v[1]})
		bus.WaitAsync()
		if i < p.DynamicBurstFirst {
			continue // several numberings arrive before anybody asks for the first time: the latest one counts
		}
		got := dm.GetInfo()
		res.Checks++
		if got.MemberNumber != v[0] || got.TotalMembers != v[1] {
			return drv.Result{Verdict: drv.Violated, Clause: "dynamic", FindingKey: "C10/dynamic", Detail: fmt.Sprintf("step %d: published %d/%d, membership reports %d/%d", i, v[0], v[1], got.MemberNumber, got.TotalMembers)}
		}
	}
	res.TraceHash = drv.Hash("dynamic", fmt.Sprint(p.Dynamic))
	res.Sample = map[string]any{"kind": "dynamic", "sequence": p.Dynamic}
	return res
}

func init() {
	drv.Register(&drv.Prop{
		ID: "C10", Level: "exploration", Parallel: 16, Batch: 1, MinConclusive: 10,
		Rule: "couchbase: 1-8 real NewCBMembership instances (own bus and own client each) on one simulated bucket with document TTL, heartbeat 20 ms / tolerance 300 ms / monitor 25 ms; sequences of joins and deaths separated by quiescent periods, " +
			"a survivor's monitor round held across a death+join (its own number stays the same), a survivor's index rewrite delayed into a CAS conflict. At quiescence (>=6 further monitor rounds of every live instance, counted from index-document reads): equal sizes, distinct numbers 1..size in join order, no announcement while stable, never two equal announcements in a row. " +
			"leader: the real serviceDiscovery as leader with scripted follower clients (ping failures from a given second, failing Rebalance calls); after the hard-coded 5 s rounds settle: leader 1/size, followers distinct 2..size in join order, failed pushes retried. static: all (member,total)<=8. dynamic: published sequences incl. repeats. " +
			"Non-trivial: a sequence with >=1 death and >=1 later join (or a held/raced round); distinct = distinct action sequences",
		Assumptions: []string{"the Kubernetes lease election itself (client-go) is not run; leadership is injected through BeLeader()", "an instance that stops heart-beating (Close) is a silent death as far as its peers can tell", "liveness windows are wide relative to scheduling noise (tolerance = 15 x heartbeat interval)"},
		Gen: func(seed int64, tier string) []drv.Scenario {
			rng := rand.New(rand.NewSource(seed))
			var out []drv.Scenario
			n, nl := 18, 6
			if tier == "thorough" {
				n, nl = 300, 60
			}
			for i := 0; i < n; i++ {
				p := c10Params{}
				k := 2 + rng.Intn(4)
				if i%6 == 5 {
					k = 6 + rng.Intn(3)
				}
				for j := 0; j < k; j++ {
					p.Actions = append(p.Actions, c10Action{Op: "join", I: j})
				}
				p.Actions = append(p.Actions, c10Action{Op: "quiesce"})
				alive := rng.Perm(k)
				next := k
				switch i % 3 {
				case 0: // deaths and later joins
					if i%6 == 0 {
						// the group stays unchanged for longer than the instance documents live (expirySeconds) before the next
						// member dies: what the group shares must still be there then
						p.Actions = append(p.Actions, c10Action{Op: "idle"})
					}
					for r := 0; r < 1+rng.Intn(2); r++ {
						if len(alive) > 1 {
							p.Actions = append(p.Actions, c10Action{Op: "leave", I: alive[0]})
							alive = alive[1:]
						}
						if rng.Intn(2) == 0 {
							p.Actions = append(p.Actions, c10Action{Op: "quiesce"})
						}
						p.Actions = append(p.Actions, c10Action{Op: "join", I: next}, c10Action{Op: "quiesce"})
						next++
					}
				case 1: // replacement seen in one round by a survivor
					p.Hold = "replace"
					victim := k - 1
					p.Actions = append(p.Actions, c10Action{Op: "replace", I: victim}, c10Action{Op: "quiesce"})
				case 2: // CAS race between survivors
					if i%12 == 8 && k >= 2 {
						p.Hold = "getfail"
						p.Actions = append(p.Actions, c10Action{Op: "getfail", I: alive[0]}, c10Action{Op: "quiesce"})
						break
					}
					if i%6 == 2 && k >= 2 {
						// a member whose heartbeats lapse is dropped by the others and then resumes
						p.Hold = "stall"
						p.Actions = append(p.Actions, c10Action{Op: "stall", I: alive[0]}, c10Action{Op: "quiesce"})
						break
					}
					p.Hold = "cas"
					p.Actions = append(p.Actions, c10Action{Op: "casrace", I: alive[0]}, c10Action{Op: "quiesce"})
				}
				out = append(out, drv.Scenario{Kind: "couchbase", Seed: seed, Params: mustJSON(p), TimeoutS: 180, Solo: true})
			}
			for i := 0; i < nl; i++ {
				p := c10Params{}
				k := 1 + rng.Intn(4)
				for j := 0; j < k; j++ {
					f := c10Follower{Name: fmt.Sprintf("pod-%d", j), JoinAt: j % 2}
					if rng.Intn(4) == 0 && k > 1 {
						f.PingFailFrom = 7 + rng.Intn(4)
					}
					if rng.Intn(3) == 0 {
						f.RebalErrors = 1 + rng.Intn(2)
					}
					p.Followers = append(p.Followers, f)
				}
				if i%3 == 1 {
					// a follower's process is replaced and registers again under the same name while the leader still holds the
					// (now dead) first registration
					for j := range p.Followers {
						if p.Followers[j].PingFailFrom == 0 {
							p.Followers[j].RestartAt = 3 + rng.Intn(3)
							p.Followers[j].RestartInPing = i%2 == 1
							break
						}
					}
				}
				p.EarlyRegister = i%2 == 1
				if i%3 == 2 {
					// a late joiner whose first assignment push fails: the numbering must still reach it
					p.Followers = append(p.Followers, c10Follower{Name: "pod-late", JoinAt: 12, RebalErrors: 1})
				}
				out = append(out, drv.Scenario{Kind: "leader", Seed: seed, Params: mustJSON(p), TimeoutS: 180, Solo: true})
			}
			// a follower whose connection to the leader broke registers again - the same process, same name, same join time -
			// before (or while) the leader's heart-beat round finds the old connection dead: it stays a numbered member
			cr := rand.New(rand.NewSource(seed*89 + 3))
			for i := 0; i < nl/3; i++ {
				p := c10Params{EarlyRegister: i%2 == 0}
				k := 1 + cr.Intn(3)
				for j := 0; j < k; j++ {
					p.Followers = append(p.Followers, c10Follower{Name: fmt.Sprintf("pod-%d", j), JoinAt: j % 2})
				}
				j := cr.Intn(k)
				p.Followers[j].RestartAt, p.Followers[j].Reconnect, p.Followers[j].RestartInPing = 3+cr.Intn(3), true, i%2 == 1
				out = append(out, drv.Scenario{Kind: "leader", Seed: seed, Params: mustJSON(p), TimeoutS: 180, Solo: true})
			}
			out = append(out, drv.Scenario{Kind: "static", Seed: seed, Params: mustJSON(c10Params{Static: true}), TimeoutS: 60})
			for i := 0; i < 4; i++ {
				var seq [][2]int
				for j := 0; j < 3+rng.Intn(6); j++ {
					t := 1 + rng.Intn(8)
					v := [2]int{1 + rng.Intn(t), t}
					seq = append(seq, v)
					if rng.Intn(3) == 0 {
						seq = append(seq, v)
					}
				}
				out = append(out, drv.Scenario{Kind: "dynamic", Seed: seed, Params: mustJSON(c10Params{Dynamic: seq, DynamicBurstFirst: []int{0, 1, 2, 3}[i%4]}), TimeoutS: 60})
			}
			for _, fi := range [][2]int{{1, 1}, {1, 2}, {2, 2}, {3, 4}} {
				out = append(out, drv.Scenario{Kind: "dynamic-api", Seed: seed, Params: mustJSON(c10Params{FollowerNumbering: fi}), TimeoutS: 120, Solo: true})
			}
			for i := 0; i < 2; i++ {
				t := 2 + rng.Intn(5)
				out = append(out, drv.Scenario{Kind: "follower", Seed: seed, Params: mustJSON(c10Params{FollowerNumbering: [2]int{2 + rng.Intn(t-1), t}}), TimeoutS: 90, Solo: true})
			}
			// the rpc layer between a leader and its followers (real server, real clients over loopback tcp)
			out = append(out, drv.Scenario{Kind: "rpc", Seed: seed, Params: mustJSON(c10Params{}), TimeoutS: 90, Solo: true})
			for i := 0; i < 3; i++ {
				t := 2 + rng.Intn(6)
				out = append(out, drv.Scenario{Kind: "dynamic-window", Seed: seed, Params: mustJSON(c10Params{DynamicWindow: [2]int{1 + rng.Intn(t), t}}), TimeoutS: 60})
			}
			return out
		},
		Run: func(sc drv.Scenario) drv.Result {
			var p c10Params
			if err := json.Unmarshal(sc.Params, &p); err != nil {
				return drv.Result{Verdict: drv.Inconclusive, Detail: err.Error()}
			}
			switch sc.Kind {
			case "couchbase":
				return c10RunCouchbase(sc, &p)
			case "leader":
				return c10RunLeader(sc, &p)
			case "follower":
				return c10RunFollower(sc, &p)
			case "rpc":
				return c10RunRPC(sc)
			case "dynamic-api":
				// a complete client with dynamic membership: the first PUT /membership/info admits it (its stream opens on that chunk)
				sp := &SessSpec{NumVB: 4, Nodes: 1, PNow: 1, Backend: "mem", Membership: "dynamic", FirstInfo: p.FollowerNumbering, API: true,
					Backlog: map[int][][]ItemSpec{}, Steps: []Step{{Op: "sleep", Ms: 50}}}
				drv.NoteFlush("dynamic-api first info %v", p.FollowerNumbering)
				tr := RunSession(sp)
				res := drv.Result{Verdict: drv.Held, Checks: 1, Nontrivial: true, Events: map[string]int{}, TraceHash: drv.Hash("dynamic-api", fmt.Sprint(p.FollowerNumbering)),
					Sample: map[string]any{"kind": "dynamic-api", "first_info": p.FollowerNumbering, "streams_requested": len(tr.Segs)}}
				put := false
				for _, r := range tr.Log {
					if r.K == "ctl.membership" {
						put = true
					}
				}
				if tr.StartErr != "" {
					if !put {
						return drv.Result{Verdict: drv.Inconclusive, Detail: "the first PUT was never accepted: " + tr.StartErr}
					}
					res.Verdict, res.Clause, res.FindingKey = drv.Violated, "dynamic", "C10/dynamic/not-admitted"
					res.Detail = fmt.Sprintf("PUT /membership/info %d/%d was answered 200, yet the client did not open its stream (%s)", p.FollowerNumbering[0], p.FollowerNumbering[1], tr.StartErr)
					return res
				}
				return res
			}
			return c10RunSmall(sc, &p)
		},
		OnDeath: func(sc drv.Scenario, out drv.ChildOutcome) drv.Result {
			var p c10Params
			_ = json.Unmarshal(sc.Params, &p)
			if p.Hold == "stall" && strings.Contains(out.Stderr, "cant find self in cluster") {
				// the documented fail-stop of a member that finds itself dropped from the group: it never keeps a stale number
				return drv.Result{Verdict: drv.Held, Checks: 1, Nontrivial: true, TraceHash: drv.Hash("cb-stall", string(sc.Params)), Events: map[string]int{"fail_stop": 1},
					Sample: map[string]any{"kind": "couchbase", "hold": "stall", "outcome": "dropped member stopped itself: " + drv.PanicLine(out.Stderr)}}
			}
			if p.Hold == "getfail" && drv.IsLibraryPanic(out.Stderr) && strings.Contains(out.Stderr, "cbMembership).monitor") && strings.Contains(drv.PanicLine(out.Stderr), "\"status_code\":132") {
				for _, nt := range out.Notes {
					if strings.HasPrefix(nt, "getfail") {
						// fail-stop of a member that could not read a peer's state
						return drv.Result{Verdict: drv.Held, Checks: 1, Nontrivial: true, TraceHash: drv.Hash("cb-getfail", string(sc.Params)), Events: map[string]int{"fail_stop": 1},
							Sample: map[string]any{"kind": "couchbase", "hold": "getfail", "outcome": "the reader stopped itself: " + drv.PanicLine(out.Stderr)}}
					}
				}
			}
			if p.Hold == "getfail" && strings.Contains(out.Stderr, "cant find self in cluster") {
				return drv.Result{Verdict: drv.Violated, Clause: "dropped-alive", FindingKey: "C10/dropped-alive", Nontrivial: true,
					Detail: "one read of a live peer's instance document was answered with an error status; the reader took the peer for gone and rewrote the group without it - the peer, alive and heart-beating all along, found itself dropped: " + drv.PanicLine(out.Stderr)}
			}
			if drv.IsLibraryPanic(out.Stderr) {
				return drv.Result{Verdict: drv.Violated, Clause: "crash", FindingKey: "C10/process-death", Detail: "membership code killed the process: " + drv.PanicLine(out.Stderr), Witness: out.Stderr}
			}
			return drv.Result{Verdict: drv.Inconclusive, Detail: "child ended: " + drv.PanicLine(out.Stderr)}
		},
	})
}

// c10RunRPC: the rpc layer the leader-assigned mechanism rides on.
// (a) every success / failure pattern of the attempts of one rpc call (helpers.Retry is what Ping, Register and Rebalance go
// through): the call succeeds iff one of its attempts does, and stops at the first success;
// (b) a follower that the leader cannot call back (nothing listens on the follower's address) asks the leader's real rpc
// server to register it through the library's real client: either the request fails - the follower then knows it is not
// in the group - or the leader lists it. Being told "registered" while the leader does not list it leaves an instance
// outside the group for good (it never registers again).
func c10RunRPC(sc drv.Scenario) drv.Result {
	hx.QuietLogger()
	res := drv.Result{Verdict: drv.Held, Events: map[string]int{}, Nontrivial: true, TraceHash: drv.Hash("rpc")}
	viol := func(clause, detail string) drv.Result {
		res.Verdict, res.Clause, res.FindingKey, res.Detail = drv.Violated, clause, "C10/rpc/"+clause, detail
		return res
	}
	for n := 1; n <= 4; n++ {
		for pat := 0; pat < 1<<n; pat++ {
			calls := 0
			err := helpers.Retry(func() error {
				k := calls
				calls++
				if pat&(1<<k) != 0 {
					return nil
				}
				return fmt.Errorf("attempt %d failed", k+1)
			}, n, time.Millisecond)
			first := -1
			for k := 0; k < n; k++ {
				if pat&(1<<k) != 0 {
					first = k
					break
				}
			}
			res.Checks++
			desc := ""
			for k := 0; k < n; k++ {
				if pat&(1<<k) != 0 {
					desc += "S"
				} else {
					desc += "F"
				}
			}
			if first >= 0 && err != nil {
				return viol("retry", fmt.Sprintf("attempts %s of an rpc call (up to %d): attempt %d succeeded, the call reports %v - a follower that answered is taken for dead", desc, n, first+1, err))
			}
			if first < 0 && err == nil {
				return viol("retry", fmt.Sprintf("attempts %s of an rpc call (up to %d): every attempt failed, the call reports success", desc, n))
			}
			want := n
			if first >= 0 {
				want = first + 1
			}
			if calls != want {
				return viol("retry", fmt.Sprintf("attempts %s of an rpc call (up to %d): %d attempts were made, expected %d", desc, n, calls, want))
			}
		}
	}
	port := hx.FreePort()
	cfg := &config.Dcp{}
	cfg.Dcp.Group.Membership.RebalanceDelay = 10 * time.Millisecond
	bus := EventBus.New()
	sd := servicediscovery.NewServiceDiscovery(cfg, bus)
	sd.BeLeader()
	leader := &models.Identity{IP: "127.0.0.1", Name: "leader", ClusterJoinTime: time.Now().UnixNano()}
	srv := servicediscovery.NewServer(port, leader, sd)
	srv.Listen()
	defer srv.Shutdown()
	// a tcp connection to the broadcast address is refused by the local stack at once, on any host: the leader cannot call this follower back
	fol := &models.Identity{IP: "255.255.255.255", Name: "pod-unreachable", ClusterJoinTime: time.Now().UnixNano()}
	cl, err := servicediscovery.NewClient(port, fol, leader)
	if err != nil {
		return drv.Result{Verdict: drv.Inconclusive, Detail: "cannot reach the leader's rpc server: " + err.Error()}
	}
	defer cl.Close()
	rerr := cl.Register()
	listed := false
	for _, n := range sd.GetAll() {
		if n == fol.Name {
			listed = true
		}
	}
	res.Checks++
	res.Events["rpc_register"] = 1
	res.Sample = map[string]any{"kind": "rpc", "retry_patterns": res.Checks - 1, "register_error": fmt.Sprint(rerr), "leader_lists_follower": listed}
	if rerr == nil && !listed {
		return viol("register", "a follower the leader could not call back was told its registration succeeded (Register() returned nil) although the leader does not list it: it never registers again and never receives a numbering")
	}
	return res
}
