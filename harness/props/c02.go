package props

import (
	"encoding/binary"
	"encoding/json"
	"fmt"
	"math/rand"
	"time"

	"verif/harness/cbsim"
	"verif/harness/drv"
)

// C02 — a session resumes exactly where the persisted checkpoint says.

var u64Bounds = []uint64{0, 1, 2, 1<<32 - 1, 1 << 32, 1<<32 + 1, 1<<53 - 1, 1 << 53, 1<<53 + 1, 1<<63 - 1, 1 << 63, 1<<63 + 1, ^uint64(0) - 1, ^uint64(0)}

func randU64(rng *rand.Rand) uint64 {
	if rng.Intn(3) == 0 {
		return rng.Uint64()
	}
	if rng.Intn(4) == 0 {
		return uint64(rng.Intn(1000))
	}
	return u64Bounds[rng.Intn(len(u64Bounds))]
}

type c02Params struct {
	Spec   *SessSpec `json:"spec"`
	Round  bool      `json:"round,omitempty"`  // round trip: second session from what the first one stored
	Reopen bool      `json:"reopen,omitempty"` // second open inside one session
}

func c02Spec(rng *rand.Rand, i int) (*c02Params, string) {
	sp := &SessSpec{NumVB: 1 + rng.Intn(8), Nodes: 1 + rng.Intn(2), AckSeed: rng.Int63(), PNow: 1, Backlog: map[int][][]ItemSpec{}}
	if i%40 == 39 {
		sp.NumVB = []int{64, 128}[rng.Intn(2)]
	}
	sp.Backend = []string{"cb", "file", "mem"}[i%3]
	sp.AutoReset = []string{"earliest", "latest"}[rng.Intn(2)]
	sp.Mode = []string{"infinite", "finite", ""}[rng.Intn(3)]
	sp.ReadOnly = rng.Intn(4) == 0
	sp.Highs = map[int]uint64{}
	sp.PreStore = map[int][4]uint64{}
	sp.Failover = map[int][][2]uint64{}
	shape := rng.Intn(5) // none all one alternating random
	for vb := 0; vb < sp.NumVB; vb++ {
		high := randU64(rng)
		sp.Highs[vb] = high
		n := 1 + rng.Intn(3)
		var fl [][2]uint64
		for k := 0; k < n; k++ {
			fl = append(fl, [2]uint64{randU64(rng) | 1, uint64(n-1-k) * 3})
		}
		sp.Failover[vb] = fl
		has := false
		switch shape {
		case 1:
			has = true
		case 2:
			has = vb == sp.NumVB/2
		case 3:
			has = vb%2 == 0
		case 4:
			has = rng.Intn(2) == 0
		}
		if sp.Backend == "file" && shape != 0 {
			has = true // the file back end stores the whole assignment
		}
		if has {
			seq := randU64(rng)
			if seq > high {
				seq = high
			}
			if rng.Intn(3) == 0 {
				seq = high
			}
			ss, se := randU64(rng), randU64(rng)
			if rng.Intn(2) == 0 && seq > 0 {
				ss = seq - uint64(rng.Intn(2))
				se = seq
				if seq < ^uint64(0) {
					se = seq + uint64(rng.Intn(2))
				}
			}
			sp.PreStore[vb] = [4]uint64{randU64(rng), seq, ss, se}
		}
	}
	if sp.Backend == "cb" && rng.Intn(5) == 0 {
		vb := rng.Intn(sp.NumVB)
		delete(sp.PreStore, vb)
		sp.Corrupt = []int{vb}
	}
	if rng.Intn(4) == 0 {
		// collections: the configured collection's high seqno lies below the vBucket's
		sp.Colls = map[string]uint32{"c1": 8}
		sp.CollNames = []string{"c1"}
		sp.CollHighs = map[int]uint64{}
		for vb := 0; vb < sp.NumVB; vb++ {
			sp.CollHighs[vb] = sp.Highs[vb] / 2
		}
	}
	switch i % 9 {
	case 4:
		// a skip window that has not ended yet: it filters deliveries, not where the streams start
		sp.SkipUntil = time.Now().Unix() + 3600
	case 7:
		sp.SkipUntil = time.Now().Unix() - 3600
	}
	if i%11 == 5 && sp.Backend != "mem" {
		// the stored entries were written for a bucket of the same name that has another uuid: they still are what is resumed from
		sp.PreStoreBucket = "0b5c0ffee0b5c0ffee0b5c0ffee0b5c0"
	}
	sp.Steps = []Step{{Op: "sleep", Ms: 1}}
	kind := "open"
	p := &c02Params{Spec: sp}
	return p, kind
}

// c02ReadOnlySpec: a normal streaming session in read-only metadata mode; nothing may be written and the
// requests must be what the store says.
func c02ReadOnlySpec(rng *rand.Rand, i int) *c02Params {
	sp := &SessSpec{NumVB: 1 + rng.Intn(4), Nodes: 1, AckSeed: rng.Int63(), PNow: 1, PCommitIn: 0.3, Backlog: map[int][][]ItemSpec{}, PreStore: map[int][4]uint64{}, Failover: map[int][][2]uint64{}, ReadOnly: true}
	sp.Backend = []string{"mem", "cb", "file"}[i%3]
	sp.Auto, sp.IntervalMs = rng.Intn(2) == 0, 2
	o := &HistOpts{NumVB: sp.NumVB, PSystem: 0.1, PSeqAdv: 0.2, MaxItems: 4}
	ctr := 0
	for vb := 0; vb < sp.NumVB; vb++ {
		sp.Failover[vb] = [][2]uint64{{0xabc000 + uint64(vb), 0}}
		sp.Backlog[vb] = append(sp.Backlog[vb], genSnap(rng, o, &ctr), genSnap(rng, o, &ctr))
		if (sp.Backend == "file" && i%6 != 2) || (sp.Backend != "file" && rng.Intn(2) == 0) {
			sp.PreStore[vb] = [4]uint64{0xabc000 + uint64(vb), 1, 1, 1}
		}
	}
	sp.Steps = []Step{{Op: "barrier"}, {Op: "commit"}, {Op: "append", VB: 0, Items: genSnap(rng, o, &ctr)}, {Op: "barrier"}, {Op: "commit"}}
	return &c02Params{Spec: sp}
}

// c02ReopenSpec: the second open of a session (a rebalance) loads and samples again.
func c02ReopenSpec(rng *rand.Rand, i int) *c02Params {
	sp := &SessSpec{NumVB: 2 + rng.Intn(3), Nodes: 1, AckSeed: rng.Int63(), PNow: 1, Backlog: map[int][][]ItemSpec{}, PreStore: map[int][4]uint64{}, Failover: map[int][][2]uint64{},
		Membership: "dynamic", FirstInfo: [2]int{1, 1}, API: true}
	o := &HistOpts{NumVB: sp.NumVB, PSystem: 0.05, PSeqAdv: 0.1, MaxItems: 4}
	ctr := 0
	for vb := 0; vb < sp.NumVB; vb++ {
		sp.Failover[vb] = [][2]uint64{{0xabc000 + uint64(vb), 0}}
		sp.Backlog[vb] = append(sp.Backlog[vb], genSnap(rng, o, &ctr), genSnap(rng, o, &ctr))
	}
	if i%2 == 0 {
		// finite mode: the end of the re-requested streams is the high seqno sampled at THAT open. The consumer is held inside
		// its first delivery while the rebalance is requested and the vBuckets receive more documents.
		sp.Mode = "finite"
		sp.Backend = []string{"mem", "cb"}[rng.Intn(2)]
		sp.HoldConsAtStart = true
		sp.Steps = []Step{{Op: "waitblocked", N: 1}}
		for vb := 0; vb < sp.NumVB; vb++ {
			sp.Steps = append(sp.Steps, Step{Op: "append", VB: vb, Items: genSnap(rng, o, &ctr)})
		}
		sp.Steps = append(sp.Steps, Step{Op: "rebalanceapi"}, Step{Op: "waitrebalance", N: 1}, Step{Op: "releasecons"}, Step{Op: "waitstop", Ms: 4000})
		return &c02Params{Spec: sp, Reopen: true}
	}
	// read-only mode: another writer moves the checkpoints between the two opens; the second open loads them afresh
	sp.ReadOnly = true
	sp.Backend = []string{"mem", "cb"}[rng.Intn(2)]
	sp.Steps = []Step{{Op: "barrier"}}
	for vb := 0; vb < sp.NumVB; vb++ {
		if rng.Intn(4) != 0 {
			sp.Steps = append(sp.Steps, Step{Op: "extwrite", VB: vb, N: 1 + rng.Intn(2)})
		}
	}
	sp.Steps = append(sp.Steps, Step{Op: "rebalanceapi"}, Step{Op: "waitrebalance", N: 1}, Step{Op: "barrier"})
	return &c02Params{Spec: sp, Reopen: true}
}

// OracleReopen: the requests of the second open equal what the store held / the node reported at that open.
func OracleReopen(tr *Trace) ([]Finding, int) {
	var fs []Finding
	n := 0
	var bsstart []int64
	for _, r := range tr.Log {
		if r.K == "eh.BSStart" {
			bsstart = append(bsstart, r.T)
		}
	}
	if len(bsstart) < 2 {
		return []Finding{{"C02", "reopen", "C02/reopen/inconclusive", "no second open observed"}}, 0
	}
	ext := map[int]tuple{}
	for _, r := range tr.Log {
		if r.K == "ctl.extwrite" && r.T < bsstart[1] {
			ext[r.VB] = tuple{r.D, r.Seq, r.B, r.C}
		}
	}
	for vb := 0; vb < tr.Spec.NumVB; vb++ {
		var sg *Seg
		for _, x := range tr.Segs[vb] {
			if x.ReqT > bsstart[1] && sg == nil {
				sg = x
			}
		}
		if sg == nil {
			fs = append(fs, Finding{"C02", "reopen", "C02/reopen/missing", fmt.Sprintf("vb %d: not requested again at the second open", vb)})
			continue
		}
		n++
		if tr.Spec.Mode == "finite" {
			high, ok := highsSent(tr, sg.ReqT)[vb]
			if ok && sg.End != high {
				fs = append(fs, Finding{"C02", "reopen", "C02/reopen/end", fmt.Sprintf("vb %d: the second open requested end %d, the high seqno the node reported at that open is %d (finite mode)", vb, sg.End, high)})
			}
		}
		if want, ok := ext[vb]; ok && tr.Spec.ReadOnly {
			got := tuple{sg.ReqUUID, sg.Start, sg.SnapS, sg.SnapE}
			if got != want {
				fs = append(fs, Finding{"C02", "reopen", "C02/reopen/stale-load", fmt.Sprintf("vb %d (read-only): the store held (vbuuid %d, seq %d, [%d,%d]) at the second open, requested (vbuuid %d, start %d, [%d,%d])", vb, want.uuid, want.seq, want.ss, want.se, got.uuid, got.seq, got.ss, got.se)})
			}
		}
	}
	return fs, n
}

func c02RoundSpec(rng *rand.Rand, i int) *c02Params {
	sp := &SessSpec{NumVB: 1 + rng.Intn(5), Nodes: 1, AckSeed: rng.Int63(), PNow: 1, Backlog: map[int][][]ItemSpec{}, PreStore: map[int][4]uint64{}, Failover: map[int][][2]uint64{}}
	sp.Backend = []string{"cb", "file", "mem"}[i%3]
	lastSeq := map[int]uint64{}
	for vb := 0; vb < sp.NumVB; vb++ {
		// session 1 streams synthetic events carrying extreme seqno / snapshot / vbuuid values
		sp.Failover[vb] = [][2]uint64{{randU64(rng) | 1, 0}}
		if sp.Backend == "file" && rng.Intn(2) == 0 {
			sp.Failover[vb] = [][2]uint64{{uint64(1 + rng.Intn(9)), 0}} // the new branch id serialises shorter than the stored one
		}
		base := randU64(rng)
		if base > ^uint64(0)-20 {
			base = ^uint64(0) - 20
		}
		if base == 0 {
			base = 1
		}
		var sn []ItemSpec
		n := 1 + rng.Intn(4)
		for k := 0; k < n; k++ {
			sn = append(sn, ItemSpec{K: "m", Key: []byte(fmt.Sprintf("k%d", k)), Seq: base + uint64(k)})
		}
		sp.Backlog[vb] = [][]ItemSpec{sn}
		lastSeq[vb] = base + uint64(n) - 1
		if sp.Backend == "file" || rng.Intn(2) == 0 {
			// a previous, numerically longer checkpoint (below the first event)
			sp.PreStore[vb] = [4]uint64{^uint64(0) - uint64(rng.Intn(9)), base - 1, base - 1, base - 1}
			if base-1 == 0 {
				sp.PreStore[vb] = [4]uint64{^uint64(0), 0, 0, 0}
			}
		}
	}
	sp.Steps = []Step{{Op: "barrier"}, {Op: "check"}}
	if sp.NumVB >= 2 && rng.Intn(2) == 0 {
		// a second save in which only one vBucket has something new: the others must keep what the first save stored
		vb := rng.Intn(sp.NumVB)
		if lastSeq[vb] < ^uint64(0)-4 {
			sp.Steps = append(sp.Steps, Step{Op: "append", VB: vb, Items: []ItemSpec{{K: "m", Key: []byte("later"), Seq: lastSeq[vb] + 1}}}, Step{Op: "barrier"}, Step{Op: "check"})
		}
	}
	return &c02Params{Spec: sp, Round: true}
}

// highsSent decodes the GET_ALL_VB_SEQNOS replies (plain, i.e. not collection-aware) the node sent before tick t.
func highsSent(tr *Trace, before int64) map[int]uint64 {
	out := map[int]uint64{}
	for _, r := range tr.Log {
		if r.T >= before {
			break
		}
		if r.K == "sim.tx" && r.Op == cbsim.OpGetAllVBSeqnos && r.A < 8 {
			b := []byte(r.S)
			for i := 0; i+10 <= len(b); i += 10 {
				out[int(binary.BigEndian.Uint16(b[i:]))] = binary.BigEndian.Uint64(b[i+2:])
			}
		}
	}
	return out
}

func OracleResume(tr *Trace) ([]Finding, int) {
	var fs []Finding
	sp := tr.Spec
	n := 0
	anyStored := len(sp.PreStore) > 0
	for vb := 0; vb < sp.NumVB; vb++ {
		segs := tr.Segs[vb]
		if len(segs) == 0 {
			fs = append(fs, Finding{"C02", "request", "C02/request/missing", fmt.Sprintf("vb %d: no stream request was sent", vb)})
			continue
		}
		sg := segs[0]
		highs := highsSent(tr, sg.ReqT)
		high, okh := highs[vb]
		var want tuple
		src := ""
		if ps, ok := sp.PreStore[vb]; ok {
			want, src = tuple{ps[0], ps[1], ps[2], ps[3]}, "stored checkpoint"
		} else if !anyStored && sp.AutoReset == "latest" {
			want, src = tuple{sp.Failover[vb][0][0], high, high, high}, "auto-reset latest (no checkpoint for any vBucket)"
			if len(sp.Failover[vb]) == 0 {
				want.uuid = 0xabc000 + uint64(vb)
			}
		} else {
			want, src = tuple{0, 0, 0, 0}, "no checkpoint for this vBucket"
		}
		got := tuple{sg.ReqUUID, sg.Start, sg.SnapS, sg.SnapE}
		n++
		if got != want {
			field := "vbuuid"
			switch {
			case got.seq != want.seq:
				field = "seqno"
			case got.ss != want.ss || got.se != want.se:
				field = "snapshot"
			}
			fs = append(fs, Finding{"C02", "request", "C02/request/" + field, fmt.Sprintf("vb %d (%s): requested (vbuuid %d, start %d, snapshot [%d,%d]), expected (vbuuid %d, start %d, snapshot [%d,%d]); high seqno sent %d", vb, src, got.uuid, got.seq, got.ss, got.se, want.uuid, want.seq, want.ss, want.se, high)})
		}
		wantEnd := ^uint64(0)
		if sp.Mode == "finite" {
			wantEnd = high
		}
		if okh && sg.End != wantEnd {
			fs = append(fs, Finding{"C02", "request", "C02/request/end", fmt.Sprintf("vb %d: requested end %d, expected %d (mode %q, high seqno sampled at open %d)", vb, sg.End, wantEnd, sp.Mode, high)})
		}
	}
	if sp.ReadOnly {
		w := tr.count("md.write") + tr.count("sim.xattrwrite") + tr.count("sim.docwrite")
		if w > 0 {
			fs = append(fs, Finding{"C02", "readonly", "C02/readonly-write", fmt.Sprintf("read-only metadata mode: %d write(s) reached the store", w)})
		}
		if sp.Backend == "file" && len(sp.PreStore) == 0 && tr.FileAtEnd != "" && tr.FileAtEnd != "<absent>" {
			fs = append(fs, Finding{"C02", "readonly", "C02/readonly-write", fmt.Sprintf("read-only metadata mode: there was no checkpoint file when the client started; afterwards the file exists (%d bytes: %s)", len(tr.FileAtEnd), trunc(tr.FileAtEnd, 80))})
		}
	}
	return fs, n
}

func init() {
	drv.Register(&drv.Prop{
		ID: "C02", Level: "exploration", Parallel: 10, Batch: 8, MinConclusive: 60,
		Rule: "open: checkpoint tuples from boundary-heavy uint64 generators (0,1,2^32+-1,2^53+-1,2^63+-1,2^64-1,random) with seq<=high, every combination of auto-reset x dcp mode x back end (couchbase xattr, file, custom; each also read-only), " +
			"subset shapes of 'vBucket has a stored checkpoint' (none/all/one/alternating/random), corrupted xattr, synthetic high-seqno vectors, collection-filtered high seqnos below the vBucket's, 1-128 vBuckets; " +
			"oracle: decoded STREAM_REQ extras equal expectedRequest(store at load, config, the GET_ALL_VB_SEQNOS and failover replies the node actually sent); read-only: zero writes. " +
			"round: session 1 streams and acknowledges events with extreme values and saves; session 2 starts from what was stored and must request exactly what session 1 tracked. " +
			"Non-trivial: a field > 2^53 or a mixed-existence subset; distinct = distinct (config, subset shape, field classes)",
		Assumptions: []string{"the simulated node accepts any vbuuid without rollback for these synthetic opens (only the request is judged)"},
		Gen: func(seed int64, tier string) []drv.Scenario {
			rng := rand.New(rand.NewSource(seed))
			n, nr := 360, 60
			if tier == "thorough" {
				n, nr = 6000, 600
			}
			var out []drv.Scenario
			for i := 0; i < n; i++ {
				p, kind := c02Spec(rng, i)
				out = append(out, drv.Scenario{Kind: kind, Seed: seed, Params: mustJSON(p), TimeoutS: 120})
			}
			for i := 0; i < nr; i++ {
				out = append(out, drv.Scenario{Kind: "readonly", Seed: seed, Params: mustJSON(c02ReadOnlySpec(rng, i)), TimeoutS: 120})
			}
			for i := 0; i < nr; i++ {
				out = append(out, drv.Scenario{Kind: "round", Seed: seed, Params: mustJSON(c02RoundSpec(rng, i)), TimeoutS: 120, Solo: i%3 == 1})
			}
			for i := 0; i < nr/3; i++ {
				out = append(out, drv.Scenario{Kind: "reopen", Seed: seed, Params: mustJSON(c02ReopenSpec(rng, i)), TimeoutS: 120, Solo: true})
			}
			if tier == "thorough" {
				p, _ := c02Spec(rng, 0)
				p.Spec.NumVB = 1024
				for vb := 0; vb < 1024; vb++ {
					p.Spec.Highs[vb] = randU64(rng)
					if vb%3 == 0 {
						p.Spec.PreStore[vb] = [4]uint64{randU64(rng), p.Spec.Highs[vb], 0, p.Spec.Highs[vb]}
					}
					p.Spec.Failover[vb] = [][2]uint64{{randU64(rng) | 1, 0}}
				}
				if p.Spec.Backend == "file" {
					p.Spec.Backend = "cb"
				}
				out = append(out, drv.Scenario{Kind: "open", Seed: seed, Params: mustJSON(p), TimeoutS: 300})
			}
			return out
		},
		Run: func(sc drv.Scenario) drv.Result {
			var p c02Params
			if err := json.Unmarshal(sc.Params, &p); err != nil {
				return drv.Result{Verdict: drv.Inconclusive, Detail: err.Error()}
			}
			sp := p.Spec
			tr := RunSession(sp)
			if tr.StartErr != "" {
				return drv.Result{Verdict: drv.Inconclusive, Detail: tr.StartErr}
			}
			if p.Reopen {
				fs, n := OracleReopen(tr)
				for _, f := range fs {
					if f.Key == "C02/reopen/inconclusive" {
						return drv.Result{Verdict: drv.Inconclusive, Detail: f.Detail}
					}
				}
				r := sessionResult("C02", tr, fs, true, map[string]any{"kind": "reopen", "mode": sp.Mode, "read_only": sp.ReadOnly, "backend": sp.Backend, "vbuckets": sp.NumVB})
				r.TraceHash = drv.Hash("reopen", sp.Mode, fmt.Sprint(sp.ReadOnly), sp.Backend, fmt.Sprint(sp.NumVB))
				r.Checks = n
				return r
			}
			fs, n := OracleResume(tr)
			big, mixed := false, len(sp.PreStore) > 0 && len(sp.PreStore) < sp.NumVB
			for _, ps := range sp.PreStore {
				for _, v := range ps {
					if v > 1<<53 {
						big = true
					}
				}
			}
			sample := map[string]any{"backend": sp.Backend, "auto_reset": sp.AutoReset, "mode": sp.Mode, "read_only": sp.ReadOnly, "vbuckets": sp.NumVB, "stored": len(sp.PreStore)}
			if len(tr.Segs[0]) > 0 {
				sg := tr.Segs[0][0]
				sample["vb0_request"] = map[string]any{"vbuuid": sg.ReqUUID, "start": sg.Start, "end": sg.End, "snapshot": []uint64{sg.SnapS, sg.SnapE}, "stored": sp.PreStore[0], "high": sp.Highs[0]}
			}
			if p.Round && len(fs) == 0 && len(tr.Checks) > 0 {
				// session 2 from what session 1 stored
				drv.NoteFlush("session2-start")
				st := map[int]tuple{}
				for vb, t := range tr.Checks[len(tr.Checks)-1].Store {
					st[vb] = tuple{t[0], t[1], t[2], t[3]}
				}
				// what session 1 tracked last
				lastTrack := map[int]tuple{}
				for _, t := range tr.Tracks {
					lastTrack[int(t.VB)] = tuple{uint64(t.Off.VbUUID), t.Off.SeqNo, t.Snap.StartSeqNo, t.Snap.EndSeqNo}
				}
				rs := restartSpec(tr, st, sc.Seed)
				rs.Steps = []Step{{Op: "sleep", Ms: 1}}
				tr2 := RunSession(rs)
				if tr2.StartErr != "" {
					fs = append(fs, Finding{"C02", "roundtrip", "C02/roundtrip/reload-failed", "session 2 could not start from what session 1 stored: " + tr2.StartErr})
				} else {
					for vb, lt := range lastTrack {
						n++
						if len(tr2.Segs[vb]) == 0 {
							continue
						}
						sg := tr2.Segs[vb][0]
						got := tuple{sg.ReqUUID, sg.Start, sg.SnapS, sg.SnapE}
						if got != lt {
							fs = append(fs, Finding{"C02", "roundtrip", "C02/roundtrip/field", fmt.Sprintf("vb %d: session 1 tracked (vbuuid %d, seq %d, [%d,%d]) and saved; session 2 requested (vbuuid %d, start %d, [%d,%d]) [back end %s]", vb, lt.uuid, lt.seq, lt.ss, lt.se, got.uuid, got.seq, got.ss, got.se, sp.Backend)})
						}
						if lt.seq > 1<<53 || lt.uuid > 1<<53 {
							big = true
						}
					}
				}
				sample["round_trip"] = fmt.Sprint(lastTrack)
			}
			r := sessionResult("C02", tr, fs, big || mixed, sample)
			r.TraceHash = drv.Hash(sp.Backend, sp.AutoReset, sp.Mode, fmt.Sprint(sp.ReadOnly, len(sp.PreStore), sp.NumVB, big, mixed, p.Round, len(sp.Corrupt), len(sp.CollHighs)), fmt.Sprint(sp.PreStore))
			r.Checks = n
			return r
		},
		OnDeath: func(sc drv.Scenario, out drv.ChildOutcome) drv.Result {
			if sc.Kind == "round" && drv.IsLibraryPanic(out.Stderr) {
				for _, n := range out.Notes {
					if n == "session2-start" {
						return drv.Result{Verdict: drv.Violated, Clause: "roundtrip", FindingKey: "C02/roundtrip/reload-crash", Detail: "the session started from what the previous session stored died: " + drv.PanicLine(out.Stderr)}
					}
				}
			}
			return drv.Result{Verdict: drv.Inconclusive, Detail: "child died: " + drv.PanicLine(out.Stderr), Foreign: []string{"process death: " + drv.PanicLine(out.Stderr)}}
		},
	})
}
