package props

import (
	"encoding/json"
	"fmt"
	"math/rand"

	"github.com/Trendyol/go-dcp/config"
	"github.com/Trendyol/go-dcp/helpers"
	"github.com/Trendyol/go-dcp/stream"

	"verif/harness/drv"
	"verif/harness/hx"
)

// C09 — vBucket partition across group members is exact. The real helpers.ChunkSlice is executed for
// every (N,T), 1<=T<=N<=1024, twice, and each result is checked by a direct predicate; the discovery
// path (stream.NewVBucketDiscovery with static membership) is executed for sampled (N,T,member).

type c09Params struct {
	NFrom, NTo int
	Disc       [][3]int // (N,T,member) triples for the discovery path
}

func init() {
	drv.Register(&drv.Prop{
		ID: "C09", Level: "exploration", Exhaustive: true, Batch: 1, Parallel: 16,
		Rule: "every pair (N,T) with 1<=T<=N<=1024 is executed twice through helpers.ChunkSlice (every member's chunk checked); " +
			"a case is a block of N values; distinct_nontrivial counts distinct (N,T) pairs with T>=2 and N%T!=0 (uneven split) " +
			"that were evaluated; discovery-path triples are evaluated through stream.NewVBucketDiscovery(...).Get()",
		Assumptions: []string{"vBucket ids are 0..N-1 as built by vBucketDiscovery.Get"},
		Gen: func(seed int64, tier string) []drv.Scenario {
			var out []drv.Scenario
			rng := rand.New(rand.NewSource(seed))
			nd := 125
			if tier == "thorough" {
				nd = 4000
			}
			for b := 0; b < 16; b++ {
				p := c09Params{NFrom: b*64 + 1, NTo: (b + 1) * 64}
				for i := 0; i < nd; i++ {
					n := []int{64, 128, 1024, 1 + rng.Intn(1024)}[rng.Intn(4)]
					t := 1 + rng.Intn(n)
					if rng.Intn(3) == 0 {
						t = 1 + rng.Intn(min(n, 16))
					}
					p.Disc = append(p.Disc, [3]int{n, t, 1 + rng.Intn(t)})
				}
				if tier == "thorough" && b < 3 {
					// all members for N in {64,128} and a slice of 1024
					n := []int{64, 128, 1024}[b]
					for t := 1; t <= n; t += 1 + b*7 {
						for m := 1; m <= t; m += 1 + b*5 {
							p.Disc = append(p.Disc, [3]int{n, t, m})
						}
					}
				}
				raw, _ := json.Marshal(p)
				out = append(out, drv.Scenario{Kind: "block", Seed: seed, Params: raw, TimeoutS: 300})
			}
			return out
		},
		Run: runC09,
	})
}

func checkChunks(n, t int, chunks [][]uint16) string {
	if len(chunks) != t {
		return fmt.Sprintf("N=%d T=%d: %d chunks", n, t, len(chunks))
	}
	next := 0
	minL, maxL := n+1, -1
	for m, c := range chunks {
		if len(c) == 0 {
			return fmt.Sprintf("N=%d T=%d member %d: empty chunk", n, t, m+1)
		}
		for _, v := range c {
			if int(v) != next {
				return fmt.Sprintf("N=%d T=%d member %d: expected vb %d got %d (gap/overlap/order)", n, t, m+1, next, v)
			}
			next++
		}
		if len(c) < minL {
			minL = len(c)
		}
		if len(c) > maxL {
			maxL = len(c)
		}
	}
	if next != n {
		return fmt.Sprintf("N=%d T=%d: covers 0..%d only", n, t, next-1)
	}
	if maxL-minL > 1 {
		return fmt.Sprintf("N=%d T=%d: sizes differ by %d", n, t, maxL-minL)
	}
	return ""
}

func runC09(sc drv.Scenario) drv.Result {
	hx.QuietLogger()
	var p c09Params
	_ = json.Unmarshal(sc.Params, &p)
	res := drv.Result{Verdict: drv.Held, Events: map[string]int{}}
	nontrivial := 0
	for n := p.NFrom; n <= p.NTo; n++ {
		vbs := make([]uint16, n)
		for i := range vbs {
			vbs[i] = uint16(i)
		}
		for t := 1; t <= n; t++ {
			a := helpers.ChunkSlice[uint16](vbs, t)
			b := helpers.ChunkSlice[uint16](vbs, t)
			res.Checks++
			if msg := checkChunks(n, t, a); msg != "" {
				return drv.Result{Verdict: drv.Violated, Clause: "partition", FindingKey: "C09/partition", Detail: msg,
					Witness: map[string]any{"N": n, "T": t, "chunks": a}}
			}
			for m := range a {
				if len(a[m]) != len(b[m]) || (len(a[m]) > 0 && (a[m][0] != b[m][0])) {
					return drv.Result{Verdict: drv.Violated, Clause: "pure", FindingKey: "C09/pure", Detail: fmt.Sprintf("N=%d T=%d member %d differs between calls", n, t, m+1)}
				}
			}
			if t >= 2 && n%t != 0 {
				nontrivial++
			}
		}
	}
	res.Events["pairs"] = res.Checks
	// discovery path
	for _, d := range p.Disc {
		n, t, m := d[0], d[1], d[2]
		cfg := &config.Dcp{}
		cfg.Dcp.Group.Membership.Type = "static"
		cfg.Dcp.Group.Membership.MemberNumber = m
		cfg.Dcp.Group.Membership.TotalMembers = t
		vd := stream.NewVBucketDiscovery(nil, cfg, n, nil)
		got := vd.Get()
		got2 := vd.Get()
		// reference: member m's chunk = [start,end) by the balanced-split rule of the statement
		base, extra := n/t, n%t
		start := (m-1)*base + min(m-1, extra)
		size := base
		if m-1 < extra {
			size++
		}
		res.Checks++
		res.Events["discovery"]++
		bad := len(got) != size || len(got2) != size
		if !bad {
			for i, v := range got {
				if int(v) != start+i || got2[i] != v {
					bad = true
					break
				}
			}
		}
		mt := vd.GetMetric()
		if !bad && (mt.MemberNumber != m || mt.TotalMembers != t || int(mt.VBucketRangeStart) != start || int(mt.VBucketRangeEnd) != start+size-1 || mt.VBucketCount != n) {
			return drv.Result{Verdict: drv.Violated, Clause: "discovery-metric", FindingKey: "C09/discovery-metric",
				Detail: fmt.Sprintf("N=%d T=%d m=%d metric=%+v expected range %d..%d", n, t, m, *mt, start, start+size-1)}
		}
		if bad {
			return drv.Result{Verdict: drv.Violated, Clause: "discovery", FindingKey: "C09/discovery",
				Detail: fmt.Sprintf("N=%d T=%d member=%d: got %v expected %d..%d", n, t, m, abbrev(got), start, start+size-1)}
		}
	}
	res.Nontrivial = nontrivial > 0
	res.SubDistinct = nontrivial
	res.SubEvals = res.Checks
	res.TraceHash = fmt.Sprintf("block-%d-%d", p.NFrom, p.NTo)
	res.Sample = map[string]any{"N_range": []int{p.NFrom, p.NTo}, "pairs_checked": res.Events["pairs"], "uneven_pairs": nontrivial,
		"example": fmt.Sprintf("N=%d T=3 -> %v", p.NTo, chunkBounds(helpers.ChunkSlice[uint16](mkvbs(p.NTo), 3))), "discovery_triples": len(p.Disc)}
	res.Events["uneven_pairs"] = nontrivial
	return res
}

func mkvbs(n int) []uint16 {
	v := make([]uint16, n)
	for i := range v {
		v[i] = uint16(i)
	}
	return v
}

func chunkBounds(c [][]uint16) [][2]int {
	var out [][2]int
	for _, x := range c {
		if len(x) > 0 {
			out = append(out, [2]int{int(x[0]), int(x[len(x)-1])})
		}
	}
	return out
}

func abbrev(v []uint16) string {
	if len(v) == 0 {
		return "[]"
	}
	return fmt.Sprintf("[%d..%d](%d)", v[0], v[len(v)-1], len(v))
}

func min(a, b int) int {
	if a < b {
		return a
	}
	return b
}
