package props

import (
	"encoding/json"
	"fmt"
	"math/rand"

	"github.com/Trendyol/go-dcp/config"
	"github.com/Trendyol/go-dcp/helpers"
	"github.com/Trendyol/go-dcp/membership"
	"github.com/Trendyol/go-dcp/stream"
	"github.com/asaskevich/EventBus"

	"verif/harness/drv"
	"verif/harness/hx"
)

// C09 — vBucket partition across group members is exact. The real helpers.ChunkSlice is executed for
// every (N,T), 1<=T<=N<=1024, twice, and each result is checked by a direct predicate; the discovery
// path (stream.NewVBucketDiscovery with static membership) is executed for sampled (N,T,member).

type c09Params struct {
	NFrom, NTo int
	Disc       [][2]int   // (N,T) pairs for the discovery path: every member is evaluated
	Seqs       [][][2]int // membership sequences (member,total) driven through ONE long-lived dynamic discovery instance
	SeqN       []int      // vBucket count per sequence
}

func init() {
	drv.Register(&drv.Prop{
		ID: "C09", Level: "exploration", Exhaustive: true, Batch: 1, Parallel: 16,
		Rule: "every pair (N,T) with 1<=T<=N<=1024 is executed twice through helpers.ChunkSlice (every member's chunk checked); " +
			"a case is a block of N values; distinct_nontrivial counts distinct (N,T) pairs with T>=2 and N%T!=0 (uneven split) " +
			"that were evaluated; discovery-path triples are evaluated through stream.NewVBucketDiscovery(...).Get()",
		Assumptions: []string{"vBucket ids are 0..N-1 as built by vBucketDiscovery.Get"},
		Gen: func(seed int64, tier string) []drv.Scenario {
			var out []drv.Scenario
			rng := rand.New(rand.NewSource(seed))
			nd, nseq := 12, 12
			if tier == "thorough" {
				nd, nseq = 120, 300
			}
			for b := 0; b < 16; b++ {
				p := c09Params{NFrom: b*64 + 1, NTo: (b + 1) * 64}
				for i := 0; i < nd; i++ {
					n := []int{64, 128, 1024, 1 + rng.Intn(1024), 1 + rng.Intn(200)}[rng.Intn(5)]
					t := 1 + rng.Intn(n)
					if rng.Intn(2) == 0 {
						t = 1 + rng.Intn(min(n, 16))
					}
					p.Disc = append(p.Disc, [2]int{n, t})
				}
				if b < 3 {
					n := []int{64, 128, 1024}[b]
					p.Disc = append(p.Disc, [2]int{n, n}, [2]int{n, n - 1}, [2]int{n, n/2 + 1}, [2]int{n, 63}, [2]int{n, 64}, [2]int{n, 48})
				}
				for i := 0; i < nseq; i++ {
					n := []int{64, 128, 1024, 1 + rng.Intn(1024)}[rng.Intn(4)]
					var seq [][2]int
					for k := 0; k < 2+rng.Intn(6); k++ {
						t := 1 + rng.Intn(min(n, 6))
						if rng.Intn(3) == 0 {
							t = 1
						}
						mt := [2]int{1 + rng.Intn(t), t}
						seq = append(seq, mt)
						if rng.Intn(3) == 0 {
							seq = append(seq, mt) // repeated notification
						}
					}
					p.Seqs = append(p.Seqs, seq)
					p.SeqN = append(p.SeqN, n)
				}
				raw, _ := json.Marshal(p)
				out = append(out, drv.Scenario{Kind: "block", Seed: seed, Params: raw, TimeoutS: 300})
			}
			// at the wire: a member that starts on top of a checkpoint file written under a wider assignment (all N vBuckets
			// in the file) requests streams for exactly its own chunk
			nw := 12
			if tier == "thorough" {
				nw = 120
			}
			for i := 0; i < nw; i++ {
				n := 2 + rng.Intn(15)
				t := 1 + rng.Intn(min(n, 5))
				k := 1 + rng.Intn(t)
				sp := &SessSpec{NumVB: n, Nodes: 1 + rng.Intn(2), AckSeed: rng.Int63(), PNow: 1, Backend: []string{"file", "file", "mem"}[rng.Intn(3)], Backlog: map[int][][]ItemSpec{}, StaticMember: [2]int{k, t},
					PreStore: map[int][4]uint64{}}
				for vb := 0; vb < n; vb++ {
					sp.Backlog[vb] = [][]ItemSpec{{{K: "m", Key: []byte(fmt.Sprintf("w%d", vb)), Val: []byte("{}")}}}
					sp.PreStore[vb] = [4]uint64{0xabc000 + uint64(vb), 0, 0, 0}
				}
				sp.Steps = []Step{{Op: "sleep", Ms: 150}, {Op: "commit"}}
				if i%3 == 2 {
					// ... or written under a narrower one: the file knows only the lower part of the member's chunk (the group
					// has shrunk since); still every vBucket of the chunk is requested, once
					base, rem := n/t, n%t
					lo := (k-1)*base + min(k-1, rem)
					size := base
					if k-1 < rem {
						size++
					}
					keep := lo + 1 + rng.Intn(max(1, size-1))
					for vb := 0; vb < n; vb++ {
						if vb < lo || vb >= keep {
							delete(sp.PreStore, vb)
						}
					}
					sp.Backend = "file"
					sp.FileSparse = true
					sp.NoteReqs = true
				}
				out = append(out, drv.Scenario{Kind: "wire", Seed: seed, Params: mustJSON(sp), TimeoutS: 90})
			}
			return out
		},
		Run: runC09,
		OnDeath: func(sc drv.Scenario, out drv.ChildOutcome) drv.Result {
			// a wire session that died: what it had requested up to then was reported request by request
			if sc.Kind != "wire" || !drv.IsLibraryPanic(out.Stderr) {
				return drv.Result{Verdict: drv.Inconclusive, Detail: "child ended: " + drv.PanicLine(out.Stderr)}
			}
			var sp SessSpec
			_ = json.Unmarshal(sc.Params, &sp)
			n, k, t := sp.NumVB, sp.StaticMember[0], sp.StaticMember[1]
			base, rem := n/t, n%t
			lo := (k-1)*base + min(k-1, rem)
			size := base
			if k-1 < rem {
				size++
			}
			seen := map[int]int{}
			for _, nt := range out.Notes {
				var vb, c int
				if _, err := fmt.Sscanf(nt, "streamreq vb=%d n=%d", &vb, &c); err == nil {
					seen[vb] = c
				}
			}
			for vb, c := range seen {
				if vb < lo || vb >= lo+size {
					return drv.Result{Verdict: drv.Violated, Clause: "wire", FindingKey: "C09/wire/foreign-stream", Nontrivial: true, Detail: fmt.Sprintf("member %d/%d of %d vBuckets requested a stream for vb %d outside its chunk [%d,%d) and then died: %s", k, t, n, vb, lo, lo+size, drv.PanicLine(out.Stderr))}
				}
				if c > 1 {
					return drv.Result{Verdict: drv.Violated, Clause: "wire", FindingKey: "C09/wire/duplicate-stream", Nontrivial: true, Detail: fmt.Sprintf("member %d/%d of %d vBuckets requested vb %d %d times in one open (the node refuses the second request) and died: %s", k, t, n, vb, c, drv.PanicLine(out.Stderr))}
				}
			}
			return drv.Result{Verdict: drv.Inconclusive, Detail: "child ended: " + drv.PanicLine(out.Stderr)}
		},
	})
}

func checkChunks(n, t int, chunks [][]uint16) string {
	if len(chunks) != t {
		return fmt.Sprintf("N=%d T=%d: %d chunks", n, t, len(chunks))
	}
	next := 0
	minL, maxL := n+1, -1
	for m, c := range chunks {
		if len(c) == 0 {
			return fmt.Sprintf("N=%d T=%d member %d: empty chunk", n, t, m+1)
		}
		for _, v := range c {
			if int(v) != next {
				return fmt.Sprintf("N=%d T=%d member %d: expected vb %d got %d (gap/overlap/order)", n, t, m+1, next, v)
			}
			next++
		}
		if len(c) < minL {
			minL = len(c)
		}
		if len(c) > maxL {
			maxL = len(c)
		}
	}
	if next != n {
		return fmt.Sprintf("N=%d T=%d: covers 0..%d only", n, t, next-1)
	}
	if maxL-minL > 1 {
		return fmt.Sprintf("N=%d T=%d: sizes differ by %d", n, t, maxL-minL)
	}
	return ""
}

func runC09Wire(sc drv.Scenario) drv.Result {
	var sp SessSpec
	if err := json.Unmarshal(sc.Params, &sp); err != nil {
		return drv.Result{Verdict: drv.Inconclusive, Detail: err.Error()}
	}
	tr := RunSession(&sp)
	if tr.StartErr != "" {
		return drv.Result{Verdict: drv.Inconclusive, Detail: tr.StartErr}
	}
	n, k, t := sp.NumVB, sp.StaticMember[0], sp.StaticMember[1]
	// reference chunk: contiguous, the first n%t members hold one more
	base, rem := n/t, n%t
	lo := (k-1)*base + min(k-1, rem)
	size := base
	if k-1 < rem {
		size++
	}
	want := map[int]bool{}
	for vb := lo; vb < lo+size; vb++ {
		want[vb] = true
	}
	var fs []Finding
	got := map[int]bool{}
	for vb, segs := range tr.Segs {
		if len(segs) > 0 {
			got[vb] = true
		}
	}
	for vb, segs := range tr.Segs {
		if len(segs) > 1 {
			fs = append(fs, Finding{"C09", "wire", "C09/wire/duplicate-stream", fmt.Sprintf("member %d/%d of %d vBuckets requested vb %d %d times in one open", k, t, n, vb, len(segs))})
		}
	}
	for vb := 0; vb < n; vb++ {
		if got[vb] && !want[vb] {
			fs = append(fs, Finding{"C09", "wire", "C09/wire/foreign-stream", fmt.Sprintf("member %d/%d of %d vBuckets requested a stream for vb %d, which belongs to another member's chunk [%d,%d)", k, t, n, vb, lo, lo+size)})
		}
		if !got[vb] && want[vb] {
			fs = append(fs, Finding{"C09", "wire", "C09/wire/missing-stream", fmt.Sprintf("member %d/%d of %d vBuckets never requested a stream for its own vb %d", k, t, n, vb)})
		}
	}
	for _, e := range tr.Events {
		if !want[int(e.VB)] {
			fs = append(fs, Finding{"C09", "wire", "C09/wire/foreign-event", fmt.Sprintf("member %d/%d was handed an event of vb %d", k, t, e.VB)})
			break
		}
	}
	for _, w := range storeWrites(tr) {
		if !want[w.VB] && w.Seq != 0 {
			fs = append(fs, Finding{"C09", "wire", "C09/wire/foreign-checkpoint", fmt.Sprintf("member %d/%d advanced the checkpoint of vb %d to %d", k, t, w.VB, w.Seq)})
			break
		}
	}
	r := sessionResult("C09", tr, fs, t >= 2, map[string]any{"kind": "wire", "N": n, "member": k, "total": t, "backend": sp.Backend, "requested": len(got)})
	r.Checks = n
	r.TraceHash = drv.Hash("wire", fmt.Sprint(n, k, t, sp.Backend))
	return r
}

func runC09(sc drv.Scenario) drv.Result {
	if sc.Kind == "wire" {
		return runC09Wire(sc)
	}
	hx.QuietLogger()
	var p c09Params
	_ = json.Unmarshal(sc.Params, &p)
	res := drv.Result{Verdict: drv.Held, Events: map[string]int{}}
	nontrivial := 0
	for n := p.NFrom; n <= p.NTo; n++ {
		vbs := make([]uint16, n)
		for i := range vbs {
			vbs[i] = uint16(i)
		}
		for t := 1; t <= n; t++ {
			a := helpers.ChunkSlice[uint16](vbs, t)
			b := helpers.ChunkSlice[uint16](vbs, t)
			res.Checks++
			if msg := checkChunks(n, t, a); msg != "" {
				return drv.Result{Verdict: drv.Violated, Clause: "partition", FindingKey: "C09/partition", Detail: msg,
					Witness: map[string]any{"N": n, "T": t, "chunks": a}}
			}
			for m := range a {
				if len(a[m]) != len(b[m]) || (len(a[m]) > 0 && (a[m][0] != b[m][0])) {
					return drv.Result{Verdict: drv.Violated, Clause: "pure", FindingKey: "C09/pure", Detail: fmt.Sprintf("N=%d T=%d member %d differs between calls", n, t, m+1)}
				}
			}
			if t >= 2 && n%t != 0 {
				nontrivial++
			}
		}
	}
	res.Events["pairs"] = res.Checks
	// discovery path: every member of (N,T) through a fresh static-membership discovery; the union of
	// what the members obtain must satisfy the partition predicate (no particular layout is demanded).
	for _, d := range p.Disc {
		n, t := d[0], d[1]
		chunks := make([][]uint16, t)
		for m := 1; m <= t; m++ {
			cfg := &config.Dcp{}
			cfg.Dcp.Group.Membership.Type = "static"
			cfg.Dcp.Group.Membership.MemberNumber = m
			cfg.Dcp.Group.Membership.TotalMembers = t
			vd := stream.NewVBucketDiscovery(nil, cfg, n, nil)
			got := vd.Get()
			got2 := vd.Get()
			if fmt.Sprint(got) != fmt.Sprint(got2) {
				return drv.Result{Verdict: drv.Violated, Clause: "discovery-pure", FindingKey: "C09/discovery-pure",
					Detail: fmt.Sprintf("N=%d T=%d member=%d: two calls differ: %v vs %v", n, t, m, abbrev(got), abbrev(got2))}
			}
			chunks[m-1] = got
			mt := vd.GetMetric()
			if len(got) > 0 && (mt.MemberNumber != m || mt.TotalMembers != t || mt.VBucketRangeStart != got[0] || mt.VBucketRangeEnd != got[len(got)-1] || mt.VBucketCount != n) {
				return drv.Result{Verdict: drv.Violated, Clause: "discovery-metric", FindingKey: "C09/discovery-metric",
					Detail: fmt.Sprintf("N=%d T=%d m=%d metric=%+v but range is %s", n, t, m, *mt, abbrev(got))}
			}
		}
		res.Checks++
		res.Events["discovery_pairs"]++
		res.Events["discovery_members"] += t
		if msg := checkChunks(n, t, chunks); msg != "" {
			return drv.Result{Verdict: drv.Violated, Clause: "discovery", FindingKey: "C09/discovery", Detail: "through NewVBucketDiscovery: " + msg}
		}
	}
	// sequences on ONE long-lived discovery instance (dynamic membership fed through the bus): the
	// set obtained after each change must equal what a fresh instance computes for the same (N,T,member).
	for si, seq := range p.Seqs {
		n := p.SeqN[si]
		bus := EventBus.New()
		cfg := &config.Dcp{}
		cfg.Dcp.Group.Membership.Type = "dynamic"
		vd := stream.NewVBucketDiscovery(nil, cfg, n, bus)
		for step, mt := range seq {
			bus.Publish(helpers.MembershipChangedBusEventName, &membership.Model{MemberNumber: mt[0], TotalMembers: mt[1]})
			bus.WaitAsync()
			for rep := 0; rep < 2; rep++ {
				got := vd.Get()
				fc := &config.Dcp{}
				fc.Dcp.Group.Membership.Type = "static"
				fc.Dcp.Group.Membership.MemberNumber = mt[0]
				fc.Dcp.Group.Membership.TotalMembers = mt[1]
				want := stream.NewVBucketDiscovery(nil, fc, n, nil).Get()
				res.Checks++
				res.Events["discovery_seq_steps"]++
				if fmt.Sprint(got) != fmt.Sprint(want) {
					return drv.Result{Verdict: drv.Violated, Clause: "discovery-pure", FindingKey: "C09/discovery-history-dependent",
						Detail: fmt.Sprintf("N=%d sequence %v step %d (call %d): long-lived instance returns %s, fresh instance for %d/%d returns %s", n, seq[:step+1], step, rep+1, abbrev(got), mt[0], mt[1], abbrev(want))}
				}
			}
		}
		vd.Close()
	}
	res.Nontrivial = nontrivial > 0
	res.SubDistinct = nontrivial
	res.SubEvals = res.Checks
	res.TraceHash = fmt.Sprintf("block-%d-%d", p.NFrom, p.NTo)
	res.Sample = map[string]any{"N_range": []int{p.NFrom, p.NTo}, "pairs_checked": res.Events["pairs"], "uneven_pairs": nontrivial,
		"example": fmt.Sprintf("N=%d T=3 -> %v", p.NTo, chunkBounds(helpers.ChunkSlice[uint16](mkvbs(p.NTo), 3))), "discovery_pairs": len(p.Disc), "discovery_sequences": len(p.Seqs)}
	res.Events["uneven_pairs"] = nontrivial
	return res
}

func mkvbs(n int) []uint16 {
	v := make([]uint16, n)
	for i := range v {
		v[i] = uint16(i)
	}
	return v
}

func chunkBounds(c [][]uint16) [][2]int {
	var out [][2]int
	for _, x := range c {
		if len(x) > 0 {
			out = append(out, [2]int{int(x[0]), int(x[len(x)-1])})
		}
	}
	return out
}

func abbrev(v []uint16) string {
	if len(v) == 0 {
		return "[]"
	}
	return fmt.Sprintf("[%d..%d](%d)", v[0], v[len(v)-1], len(v))
}

func min(a, b int) int {
	if a < b {
		return a
	}
	return b
}
