package props

import (
	"encoding/json"
	"fmt"
	"math/big"
	"math/rand"
	"os"
	"path/filepath"
	"reflect"
	"sort"
	"strconv"
	"strings"
	"time"

	dcp "github.com/Trendyol/go-dcp"
	"github.com/Trendyol/go-dcp/config"
	"github.com/Trendyol/go-dcp/helpers"
	"github.com/Trendyol/go-dcp/models"

	"verif/harness/drv"
	"verif/harness/hx"
)

// C17 — configuration defaulting safe, idempotent, unit-exact; env precedence; derived settings; placeholders.

type c17Params struct {
	N    int   `json:"n"`
	Seed int64 `json:"seed"`
	// env cases
	EnvMember, EnvTotal   string
	FileMember, FileTotal int
}

// documented defaults (README configuration table); alternatives are accepted readings (DESIGN §3 rule 3)
var c17Defaults = map[string][]any{
	"ScopeName":                              {"_default"},
	"CollectionNames":                        {[]string{"_default"}},
	"ConnectionBufferSize":                   {20 * 1024 * 1024},
	"MaxQueueSize":                           {2048},
	"ConnectionTimeout":                      {time.Minute},
	"Dcp.BufferSize":                         {16 * 1024 * 1024},
	"Dcp.Mode":                               {config.DcpMode(""), config.DcpModeInfinite},
	"Dcp.ConnectionBufferSize":               {20 * 1024 * 1024},
	"Dcp.ConnectionTimeout":                  {time.Minute},
	"Dcp.MaxQueueSize":                       {2048},
	"Dcp.Group.Membership.Type":              {"", "couchbase"},
	"Dcp.Group.Membership.MemberNumber":      {1},
	"Dcp.Group.Membership.TotalMembers":      {1},
	"Dcp.Group.Membership.RebalanceDelay":    {30 * time.Second},
	"LeaderElection.Type":                    {"kubernetes"},
	"LeaderElection.RPC.Port":                {8081},
	"Checkpoint.Type":                        {"auto"},
	"Checkpoint.AutoReset":                   {"earliest"},
	"Checkpoint.Interval":                    {time.Minute},
	"Checkpoint.Timeout":                     {time.Minute},
	"HealthCheck.Interval":                   {time.Minute},
	"HealthCheck.Timeout":                    {time.Minute},
	"RollbackMitigation.Interval":            {time.Second},
	"RollbackMitigation.ConfigWatchInterval": {10 * time.Second},
	"Metadata.Type":                          {"couchbase"},
	"API.Port":                               {8080},
	"Metric.Path":                            {"/metrics"},
	"Logging.Level":                          {"info", ""},
}

type leaf struct {
	path string
	v    reflect.Value
}

func leaves(v reflect.Value, prefix string, out *[]leaf) {
	t := v.Type()
	for i := 0; i < t.NumField(); i++ {
		f := v.Field(i)
		if t.Field(i).PkgPath != "" {
			continue // unexported: not an option
		}
		p := t.Field(i).Name
		if prefix != "" {
			p = prefix + "." + p
		}
		if f.Kind() == reflect.Struct && f.Type() != reflect.TypeOf(time.Time{}) {
			leaves(f, p, out)
			continue
		}
		*out = append(*out, leaf{p, f})
	}
}

func randWord(rng *rand.Rand) string {
	n := 1 + rng.Intn(10)
	b := make([]byte, n)
	for i := range b {
		b[i] = "abcdefghijklmnopqrstuvwxyzABCXYZ0189_-/:"[rng.Intn(40)]
	}
	return string(b)
}

func setRandom(l leaf, rng *rand.Rand) bool {
	f := l.v
	switch f.Interface().(type) {
	case time.Duration:
		f.SetInt(int64(1 + rng.Int63n(int64(48*time.Hour))))
		if rng.Intn(6) == 0 {
			f.SetInt(-int64(1 + rng.Int63n(int64(time.Hour)))) // an explicit (if odd) value is an explicit value
		}
	case int:
		f.SetInt(int64(1 + rng.Intn(1<<20)))
		if rng.Intn(4) == 0 {
			f.SetInt(int64(-1 - rng.Intn(100)))
		}
	case string:
		f.SetString(randWord(rng))
	case config.DcpMode:
		f.SetString([]string{"finite", "infinite", randWord(rng)}[rng.Intn(3)])
	case bool:
		f.SetBool(true)
	case []string:
		n := rng.Intn(3) // explicit empty (non-nil) slice is an explicit value too
		s := make([]string, n)
		for i := range s {
			s[i] = randWord(rng)
		}
		f.Set(reflect.ValueOf(s))
	case map[string]string:
		m := map[string]string{}
		for i := 0; i < rng.Intn(3); i++ {
			m[randWord(rng)] = randWord(rng)
		}
		f.Set(reflect.ValueOf(m))
	case *time.Time:
		t := time.Unix(rng.Int63n(2e9), rng.Int63n(1e9)) // with a sub-second part
		f.Set(reflect.ValueOf(&t))
	default:
		if f.Kind() == reflect.Interface {
			switch rng.Intn(4) {
			case 0:
				f.Set(reflect.ValueOf(1 + rng.Intn(1<<30)))
			case 1:
				f.Set(reflect.ValueOf(uint(1 + rng.Intn(1<<30))))
			case 2:
				f.Set(reflect.ValueOf(fmt.Sprintf("%dmb", 1+rng.Intn(100))))
			default:
				f.Set(reflect.ValueOf(strconv.Itoa(1 + rng.Intn(1<<20))))
			}
			return true
		}
		return false
	}
	return true
}

func init() {
	drv.Register(&drv.Prop{
		ID: "C17", Level: "exploration", Parallel: 16, Batch: 4, MinConclusive: 8,
		Rule: "defaults: random subsets of all leaf options of config.Dcp (reflection) set to random non-zero values, then the real ApplyDefaults twice; " +
			"oracle: set options unchanged, unset options equal the README default (accepted alternatives for dcp.mode, membership.type, logging.level), second application is the identity. " +
			"derived: every subset of the membership / leader-election override keys and random subsets of the 11 metadata override keys through GetCouchbase*/GetKubernetesLeaderElector. " +
			"units: generated size strings (kb/mb/gb, letter case, blanks, point or comma, 0-6 decimals) through helpers.ResolveUnionIntOrStringValue against exact rational arithmetic. " +
			"env: member number / group size overrides in child processes with the variables set. placeholder: config files with ${VAR} layouts loaded through NewDcp(path).GetConfig() against the simulated node. " +
			"A sub-case is non-trivial when it sets at least one option AND leaves at least one defaulted option unset (defaults), overrides >=1 key (derived), has a fractional product (units), differs from the file value (env), or contains >=2 occurrences (placeholder); distinct = distinct sub-case descriptors",
		Assumptions: []string{"README configuration table is the documentation of defaults", "zero value means unset (library design)"},
		Gen: func(seed int64, tier string) []drv.Scenario {
			var out []drv.Scenario
			add := func(kind string, p c17Params, solo bool, env []string) {
				raw, _ := json.Marshal(p)
				out = append(out, drv.Scenario{Kind: kind, Seed: seed, Params: raw, TimeoutS: 600, Solo: solo, Env: env})
			}
			nCfg, nUnits, nFiles, nDer := 20000, 20000, 60, 4000
			blocks := 8
			if tier == "thorough" {
				nCfg, nUnits, nFiles, nDer = 1000000, 1000000, 1500, 200000
				blocks = 32
			}
			for b := 0; b < blocks; b++ {
				add("defaults", c17Params{N: nCfg / blocks, Seed: seed*1000 + int64(b)}, false, nil)
				add("units", c17Params{N: nUnits / blocks, Seed: seed*1000 + 100 + int64(b)}, false, nil)
				add("derived", c17Params{N: nDer / blocks, Seed: seed*1000 + 200 + int64(b)}, false, nil)
			}
			fb := 4
			if tier == "thorough" {
				fb = 16
			}
			for b := 0; b < fb; b++ {
				add("placeholder", c17Params{N: nFiles / fb, Seed: seed*1000 + 300 + int64(b)}, false, nil)
			}
			rng := rand.New(rand.NewSource(seed + 99))
			ne := 12
			if tier == "thorough" {
				ne = 60
			}
			for i := 0; i < ne; i++ {
				p := c17Params{FileMember: rng.Intn(5), FileTotal: rng.Intn(9)}
				var env []string
				if i%3 != 1 {
					p.EnvMember = strconv.Itoa(1 + rng.Intn(8))
					env = append(env, "GO_DCP__DCP_GROUP_MEMBERSHIP_MEMBERNUMBER="+p.EnvMember)
				}
				if i%3 != 2 {
					p.EnvTotal = strconv.Itoa(1 + rng.Intn(16))
					env = append(env, "GO_DCP__DCP_GROUP_MEMBERSHIP_TOTALMEMBERS="+p.EnvTotal)
				}
				add("env", p, true, env)
			}
			return out
		},
		Run: runC17,
	})
}

func runC17(sc drv.Scenario) drv.Result {
	hx.QuietLogger()
	var p c17Params
	_ = json.Unmarshal(sc.Params, &p)
	rng := rand.New(rand.NewSource(p.Seed))
	res := drv.Result{Verdict: drv.Held, Events: map[string]int{}}
	distinct := map[string]bool{}
	viol := func(clause, detail string) drv.Result {
		return drv.Result{Verdict: drv.Violated, Clause: clause, FindingKey: "C17/" + clause, Detail: detail}
	}
	var sample any
	switch sc.Kind {
	case "defaults":
		for i := 0; i < p.N; i++ {
			c := &config.Dcp{}
			var ls []leaf
			leaves(reflect.ValueOf(c).Elem(), "", &ls)
			set := map[string]any{}
			prob := []float64{0.05, 0.3, 0.6, 0.95}[rng.Intn(4)]
			var setNames []string
			for _, l := range ls {
				if rng.Float64() < prob && setRandom(l, rng) {
					set[l.path] = reflect.ValueOf(l.v.Interface()).Interface()
					setNames = append(setNames, l.path)
				}
			}
			before := fmt.Sprintf("%+v", *c)
			c.ApplyDefaults()
			after1 := fmt.Sprintf("%#v|%v", *c, derefTime(c))
			unsetDefaulted := 0
			for _, l := range ls {
				got := l.v.Interface()
				if want, ok := set[l.path]; ok {
					if !reflect.DeepEqual(got, want) {
						return viol("explicit-altered", fmt.Sprintf("option %s explicitly set to %#v became %#v (config before: %s)", l.path, want, got, before))
					}
					continue
				}
				alts, has := c17Defaults[l.path]
				if !has {
					if !l.v.IsZero() {
						return viol("unset-nonzero", fmt.Sprintf("unset option %s without documented default became %#v", l.path, got))
					}
					continue
				}
				unsetDefaulted++
				ok := false
				for _, a := range alts {
					if reflect.DeepEqual(got, a) {
						ok = true
					}
				}
				if !ok {
					return viol("default", fmt.Sprintf("unset option %s = %#v, documented default %#v", l.path, got, alts[0]))
				}
			}
			c.ApplyDefaults()
			after2 := fmt.Sprintf("%#v|%v", *c, derefTime(c))
			if after1 != after2 {
				return viol("idempotent", fmt.Sprintf("second ApplyDefaults changed the config: %s -> %s", after1, after2))
			}
			res.Checks++
			if len(set) > 0 && unsetDefaulted > 0 {
				sort.Strings(setNames)
				distinct[strings.Join(setNames, ",")] = true
			}
			if sample == nil && len(set) > 2 {
				sample = map[string]any{"explicitly_set": setNames, "after": fmt.Sprintf("%+v", *c)}
			}
		}
	case "units":
		for i := 0; i < p.N; i++ {
			in, want, frac := c17GenSize(rng)
			got, pv := func() (g int, pv any) {
				defer func() { pv = recover() }()
				return helpers.ResolveUnionIntOrStringValue(in), nil
			}()
			res.Checks++
			if pv != nil {
				return viol("units", fmt.Sprintf("%#v (a well-formed size) was rejected: %v", in, pv))
			}
			if !want.IsInt64() {
				continue
			}
			w := int(want.Int64())
			if got != w {
				return viol("units", fmt.Sprintf("%#v resolved to %d, exact value floor = %d", in, got, w))
			}
			if frac {
				distinct[fmt.Sprint(in)] = true
			}
			if sample == nil && frac {
				sample = map[string]any{"input": in, "resolved": got}
			}
		}
	case "derived":
		for i := 0; i < p.N; i++ {
			if msg, key := c17Derived(rng, i); msg != "" {
				return viol("derived", msg)
			} else if key != "" {
				distinct[key] = true
				if sample == nil {
					sample = key
				}
			}
			res.Checks++
		}
	case "env":
		c := &config.Dcp{}
		c.Dcp.Group.Membership.MemberNumber = p.FileMember
		c.Dcp.Group.Membership.TotalMembers = p.FileTotal
		wantM, wantT := p.FileMember, p.FileTotal
		if wantM == 0 {
			wantM = 1
		}
		if wantT == 0 {
			wantT = 1
		}
		if p.EnvMember != "" {
			wantM, _ = strconv.Atoi(p.EnvMember)
		}
		if p.EnvTotal != "" {
			wantT, _ = strconv.Atoi(p.EnvTotal)
		}
		// the numbering in effect (file values overridden by the environment) decides whether the configuration is a
		// valid one; a valid one must come out of ApplyDefaults, whatever the file values alone look like
		if pv := func() (pv any) {
			defer func() { pv = recover() }()
			c.ApplyDefaults()
			return nil
		}(); pv != nil {
			if wantM <= wantT {
				return viol("env-precedence", fmt.Sprintf("file member=%d total=%d env member=%q total=%q is the valid numbering %d/%d, yet ApplyDefaults panicked: %v", p.FileMember, p.FileTotal, p.EnvMember, p.EnvTotal, wantM, wantT, pv))
			}
			return drv.Result{Verdict: drv.Inconclusive, Detail: fmt.Sprintf("ApplyDefaults rejected the numbering %d/%d: %v", wantM, wantT, pv)}
		}
		res.Checks++
		g := c.Dcp.Group.Membership
		if g.MemberNumber != wantM || g.TotalMembers != wantT {
			return viol("env-precedence", fmt.Sprintf("file member=%d total=%d env member=%q total=%q -> member=%d total=%d, expected %d/%d", p.FileMember, p.FileTotal, p.EnvMember, p.EnvTotal, g.MemberNumber, g.TotalMembers, wantM, wantT))
		}
		c.ApplyDefaults()
		if c.Dcp.Group.Membership.MemberNumber != wantM || c.Dcp.Group.Membership.TotalMembers != wantT {
			return viol("idempotent", "second ApplyDefaults changed member/total under env override")
		}
		if (p.EnvMember != "" && p.FileMember != 0 && p.FileMember != wantM) || (p.EnvTotal != "" && p.FileTotal != 0 && p.FileTotal != wantT) {
			distinct[fmt.Sprint(p)] = true
		}
		sample = map[string]any{"file": []int{p.FileMember, p.FileTotal}, "env": []string{p.EnvMember, p.EnvTotal}, "result": []int{g.MemberNumber, g.TotalMembers}}
	case "placeholder":
		r, d, s := c17Placeholders(rng, p.N)
		if r.Verdict != drv.Held {
			return r
		}
		res.Checks += p.N
		for k := range d {
			distinct[k] = true
		}
		sample = s
	}
	res.SubEvals = res.Checks
	res.SubDistinct = len(distinct)
	res.Nontrivial = len(distinct) > 0
	res.TraceHash = drv.Hash(sc.Kind, fmt.Sprint(p.Seed), fmt.Sprint(p))
	res.Events[sc.Kind] = res.Checks
	res.Sample = sample
	return res
}

func derefTime(c *config.Dcp) string {
	if c.Dcp.Listener.SkipUntil == nil {
		return "nil"
	}
	return c.Dcp.Listener.SkipUntil.String()
}

// c17GenSize returns an input for ResolveUnionIntOrStringValue, its exact expected value and whether the
// product has a fractional part.
func c17GenSize(rng *rand.Rand) (any, *big.Int, bool) {
	switch rng.Intn(12) {
	case 0:
		n := rng.Intn(1 << 40)
		return n, big.NewInt(int64(n)), false
	case 1:
		n := uint(rng.Intn(1 << 40))
		return n, big.NewInt(int64(n)), false
	case 2:
		n := rng.Int63n(1 << 40)
		if rng.Intn(4) == 0 {
			n = rng.Int63n(100000)
		}
		ds := strconv.FormatInt(n, 10)
		if rng.Intn(3) == 0 {
			// a plain integer stays one with zeros in front of it
			ds = strings.Repeat("0", 1+rng.Intn(4)) + ds
		}
		return ds, big.NewInt(n), false
	}
	k := 1 + rng.Intn(3)
	unit := []string{"kb", "mb", "gb"}[k-1]
	// letter case
	ub := []byte(unit)
	for i := range ub {
		if rng.Intn(2) == 0 {
			ub[i] -= 32
		}
	}
	maxInt := int64(1) << uint(40-10*k)
	ip := rng.Int63n(maxInt)
	if rng.Intn(3) == 0 {
		ip = rng.Int63n(64)
	}
	nd := rng.Intn(7)
	s := strconv.FormatInt(ip, 10)
	num := new(big.Rat).SetInt64(ip)
	if nd > 0 {
		digs := make([]byte, nd)
		for i := range digs {
			digs[i] = byte('0' + rng.Intn(10))
		}
		if rng.Intn(3) == 0 {
			digs[nd-1] = '5'
		}
		sep := "."
		if rng.Intn(2) == 0 {
			sep = ","
		}
		s += sep + string(digs)
		fr, _ := new(big.Rat).SetString("0." + string(digs))
		num.Add(num, fr)
	}
	blanks := strings.Repeat(" ", rng.Intn(3))
	in := s + blanks + string(ub)
	mul := new(big.Rat).SetInt(new(big.Int).Lsh(big.NewInt(1), uint(10*k)))
	prod := new(big.Rat).Mul(num, mul)
	fl := new(big.Int).Quo(prod.Num(), prod.Denom())
	return in, fl, !prod.IsInt()
}

func c17Derived(rng *rand.Rand, i int) (string, string) {
	switch i % 3 {
	case 0: // couchbase metadata
		c := &config.Dcp{Hosts: []string{randWord(rng), randWord(rng)}, Username: randWord(rng), Password: randWord(rng), BucketName: randWord(rng),
			SecureConnection: rng.Intn(2) == 0, RootCAPath: randWord(rng)}
		c.Metadata.Config = map[string]string{}
		want := config.CouchbaseMetadata{Hosts: c.Hosts, Username: c.Username, Password: c.Password, Bucket: c.BucketName, Scope: "_default",
			Collection: "_default", MaxQueueSize: 2048, ConnectionBufferSize: 5242880, ConnectionTimeout: time.Minute, SecureConnection: c.SecureConnection, RootCAPath: c.RootCAPath}
		var keys []string
		pick := func(k string) bool {
			if rng.Intn(3) == 0 {
				keys = append(keys, k)
				return true
			}
			return false
		}
		if pick("hosts") {
			h := []string{randWord(rng), randWord(rng)}
			c.Metadata.Config["hosts"] = strings.Join(h, ",")
			want.Hosts = h
		}
		if pick("username") {
			want.Username = randWord(rng)
			c.Metadata.Config["username"] = want.Username
		}
		if pick("password") {
			want.Password = randWord(rng)
			c.Metadata.Config["password"] = want.Password
		}
		if pick("bucket") {
			want.Bucket = randWord(rng)
			c.Metadata.Config["bucket"] = want.Bucket
		}
		if pick("scope") {
			want.Scope = randWord(rng)
			c.Metadata.Config["scope"] = want.Scope
		}
		if pick("collection") {
			want.Collection = randWord(rng)
			c.Metadata.Config["collection"] = want.Collection
		}
		if pick("maxQueueSize") {
			want.MaxQueueSize = 1 + rng.Intn(100000)
			c.Metadata.Config["maxQueueSize"] = strconv.Itoa(want.MaxQueueSize)
		}
		if pick("connectionBufferSize") {
			mb := 1 + rng.Intn(64)
			want.ConnectionBufferSize = uint(mb) << 20
			c.Metadata.Config["connectionBufferSize"] = fmt.Sprintf("%dmb", mb)
		}
		if pick("connectionTimeout") {
			want.ConnectionTimeout = time.Duration(1+rng.Intn(600)) * time.Second
			c.Metadata.Config["connectionTimeout"] = want.ConnectionTimeout.String()
		}
		if pick("secureConnection") {
			want.SecureConnection = rng.Intn(2) == 0
			c.Metadata.Config["secureConnection"] = strconv.FormatBool(want.SecureConnection)
		}
		if pick("rootCAPath") {
			want.RootCAPath = randWord(rng)
			c.Metadata.Config["rootCAPath"] = want.RootCAPath
		}
		got := c.GetCouchbaseMetadata()
		if !reflect.DeepEqual(*got, want) {
			return fmt.Sprintf("GetCouchbaseMetadata with overrides %v on %+v: got %+v want %+v", c.Metadata.Config, *c, *got, want), ""
		}
		// the configuration is edited (another bucket for the same template, one more override) and asked again
		c.BucketName = randWord(rng)
		if _, ov := c.Metadata.Config["bucket"]; !ov {
			want.Bucket = c.BucketName
		}
		want.Scope = randWord(rng)
		c.Metadata.Config["scope"] = want.Scope
		got = c.GetCouchbaseMetadata()
		if !reflect.DeepEqual(*got, want) {
			return fmt.Sprintf("GetCouchbaseMetadata after the configuration was edited (bucketName %q, override scope=%q): got %+v want %+v", c.BucketName, want.Scope, *got, want), ""
		}
		if len(keys) > 0 {
			return "", "md:" + strings.Join(keys, ",")
		}
	case 1: // couchbase membership: all 32 subsets cycle
		mask := (i / 3) % 32
		c := &config.Dcp{}
		c.Dcp.Group.Membership.Config = map[string]string{}
		want := config.CouchbaseMembership{ExpirySeconds: 120, HeartbeatInterval: 10 * time.Second, HeartbeatToleranceDuration: time.Minute, MonitorInterval: 30 * time.Second, Timeout: 30 * time.Second}
		if mask&1 != 0 {
			want.ExpirySeconds = uint32(1 + rng.Intn(100000))
			c.Dcp.Group.Membership.Config["expirySeconds"] = strconv.Itoa(int(want.ExpirySeconds))
		}
		durs := []*time.Duration{&want.HeartbeatInterval, &want.HeartbeatToleranceDuration, &want.MonitorInterval, &want.Timeout}
		names := []string{"heartbeatInterval", "heartbeatToleranceDuration", "monitorInterval", "timeout"}
		for b := 0; b < 4; b++ {
			if mask&(2<<uint(b)) != 0 {
				*durs[b] = time.Duration(1+rng.Intn(100000)) * time.Millisecond
				c.Dcp.Group.Membership.Config[names[b]] = durs[b].String()
			}
		}
		got := c.GetCouchbaseMembership()
		if !reflect.DeepEqual(*got, want) {
			return fmt.Sprintf("GetCouchbaseMembership with overrides %v: got %+v want %+v", c.Dcp.Group.Membership.Config, *got, want), ""
		}
		if mask != 0 {
			return "", fmt.Sprintf("mb:%d", mask)
		}
	case 2: // leader elector: 8 subsets of the optional keys
		mask := (i / 3) % 8
		c := &config.Dcp{}
		want := config.KubernetesLeaderElector{LeaseLockName: randWord(rng), LeaseLockNamespace: randWord(rng), LeaseDuration: 8 * time.Second, RenewDeadline: 5 * time.Second, RetryPeriod: time.Second}
		c.LeaderElection.Config = map[string]string{"leaseLockName": want.LeaseLockName, "leaseLockNamespace": want.LeaseLockNamespace}
		durs := []*time.Duration{&want.LeaseDuration, &want.RenewDeadline, &want.RetryPeriod}
		names := []string{"leaseDuration", "renewDeadline", "retryPeriod"}
		for b := 0; b < 3; b++ {
			if mask&(1<<uint(b)) != 0 {
				*durs[b] = time.Duration(1+rng.Intn(100000)) * time.Millisecond
				c.LeaderElection.Config[names[b]] = durs[b].String()
			}
		}
		got := c.GetKubernetesLeaderElector()
		if !reflect.DeepEqual(*got, want) {
			return fmt.Sprintf("GetKubernetesLeaderElector with %v: got %+v want %+v", c.LeaderElection.Config, *got, want), ""
		}
		if mask != 0 {
			return "", fmt.Sprintf("le:%d", mask)
		}
	}
	return "", ""
}

// c17Placeholders writes config files with ${VAR} layouts and loads them through the public path
// NewDcp(path, listener).GetConfig() against the simulated node.
func c17Placeholders(rng *rand.Rand, n int) (drv.Result, map[string]bool, any) {
	distinct := map[string]bool{}
	env, err := hx.NewEnv(hx.EnvOpts{NumVB: 2})
	if err != nil {
		return drv.Result{Verdict: drv.Inconclusive, Detail: err.Error()}, nil, nil
	}
	defer env.Close()
	dir, _ := os.MkdirTemp("", "c17-")
	defer os.RemoveAll(dir)
	var sample any
	vars := []string{"V_A", "V_B", "V_C", "V_EMPTY", "V_UNSET1", "V_UNSET2"}
	for i := 0; i < n; i++ {
		vals := map[string]string{"V_A": "a" + randAlnum(rng), "V_B": "b" + randAlnum(rng), "V_C": randAlnum(rng), "V_EMPTY": ""}
		for _, v := range vars {
			os.Unsetenv(v)
		}
		for k, v := range vals {
			os.Setenv(k, v)
		}
		// a string option = concatenation of literal pieces and placeholders
		mk := func() (string, string, int) {
			var raw, exp strings.Builder
			occ := 0
			parts := 1 + rng.Intn(4)
			for j := 0; j < parts; j++ {
				if rng.Intn(3) == 0 {
					w := randAlnum(rng)
					raw.WriteString(w)
					exp.WriteString(w)
					continue
				}
				v := vars[rng.Intn(len(vars))]
				raw.WriteString("${" + v + "}")
				occ++
				if val, ok := vals[v]; ok {
					exp.WriteString(val)
				} else {
					exp.WriteString("${" + v + "}")
				}
			}
			return raw.String(), exp.String(), occ
		}
		type fld struct{ raw, exp string }
		f := map[string]fld{}
		total := 0
		for _, name := range []string{"scopeName", "mdColl", "group", "metricPath", "rootCAPath", "mdScope", "leType"} {
			r, e, o := mk()
			f[name] = fld{r, e}
			total += o
		}
		yaml := fmt.Sprintf(`hosts:
  - %s
bucketName: %s
scopeName: "%s"
rootCAPath: "%s"
metric:
  path: "%s"
dcp:
  group:
    name: "%s"
    membership:
      type: static
metadata:
  type: couchbase
  config:
    scope: "%s"
    collection: "%s"
    password: "pw-0verride-7"
leaderElection:
  type: "%s"
api:
  disabled: true
healthCheck:
  disabled: true
rollbackMitigation:
  disabled: true
logging:
  level: error
`, env.Sim.Hosts()[0], env.Sim.Bucket, f["scopeName"].raw, f["rootCAPath"].raw, f["metricPath"].raw, f["group"].raw, f["mdScope"].raw, f["mdColl"].raw, f["leType"].raw)
		path := filepath.Join(dir, fmt.Sprintf("c%d.yml", i))
		os.WriteFile(path, []byte(yaml), 0o644)
		d, err := dcp.NewDcp(path, func(*models.ListenerContext) {})
		if err != nil {
			return drv.Result{Verdict: drv.Inconclusive, Detail: "NewDcp(path): " + err.Error() + " yaml=" + yaml}, nil, nil
		}
		c := d.GetConfig()
		got := map[string]string{"scopeName": c.ScopeName, "mdColl": c.Metadata.Config["collection"], "rootCAPath": c.RootCAPath, "metricPath": c.Metric.Path,
			"group": c.Dcp.Group.Name, "mdScope": c.Metadata.Config["scope"], "leType": c.LeaderElection.Type}
		mdPw, derivedPw := c.Metadata.Config["password"], c.GetCouchbaseMetadata().Password
		d.GetClient().DcpClose()
		d.GetClient().Close()
		if mdPw != "pw-0verride-7" || derivedPw != "pw-0verride-7" {
			return drv.Result{Verdict: drv.Violated, Clause: "explicit-altered", FindingKey: "C17/explicit-altered",
				Detail: fmt.Sprintf("metadata.config.password was set to %q in the file; after NewDcp(path) the configuration holds %q and GetCouchbaseMetadata().Password is %q", "pw-0verride-7", mdPw, derivedPw)}, nil, nil
		}
		for name, fl := range f {
			exp := fl.exp
			if exp == "" && (name == "metricPath" || name == "leType" || name == "scopeName") {
				continue // empty means unset there; ApplyDefaults legitimately fills it
			}
			if got[name] != exp {
				return drv.Result{Verdict: drv.Violated, Clause: "placeholder", FindingKey: "C17/placeholder",
					Detail: fmt.Sprintf("option %s: file value %q with env %v loaded as %q, expected %q", name, fl.raw, vals, got[name], exp)}, nil, nil
			}
		}
		if total >= 2 {
			distinct[yaml[strings.Index(yaml, "scopeName"):strings.Index(yaml, "api:")]] = true
		}
		if sample == nil {
			sample = map[string]any{"group_name_in_file": f["group"].raw, "loaded": got["group"], "env": vals}
		}
	}
	return drv.Result{Verdict: drv.Held}, distinct, sample
}

func randAlnum(rng *rand.Rand) string {
	n := 1 + rng.Intn(8)
	b := make([]byte, n)
	for i := range b {
		b[i] = "abcdefghijklmnopqrstuvwxyzABCXYZ0189"[rng.Intn(36)]
	}
	return string(b)
}
