package props

import (
	"encoding/json"
	"fmt"
	"math/rand"
	"strings"

	"verif/harness/cbsim"
	"verif/harness/drv"
)

// C05 — settled progress becomes durable; a failed save loses nothing; an idle save writes nothing.

// OracleDurable evaluates every barrier check point of the trace (DESIGN §4 C05).
func OracleDurable(tr *Trace, prop string) []Finding {
	var fs []Finding
	for ci, ck := range tr.Checks {
		// did the save inside the barrier commit fail? then equality is not required here
		failed := false
		for _, r := range tr.Log {
			if r.T > ck.TCommitCall && r.T < ck.TCommitRet {
				if (r.K == "md.save.ret" && r.S != "") || r.K == "sim.fault" {
					failed = true
				}
			}
		}
		if failed {
			continue
		}
		// settled is per stream session: a re-open (rebalance) re-delivers from the store, so only what was
		// settled since the last open counts; while the stream is closed there is no position to persist
		var epoch int64
		closedNow := false
		for _, r := range tr.Log {
			if r.T >= ck.TCommitCall {
				break
			}
			switch r.K {
			case "eh.BSStart":
				epoch = r.T
			case "eh.ASStart":
				closedNow = false
			case "eh.BSS":
				closedNow = true
			}
		}
		if closedNow {
			continue
		}
		for vb := 0; vb < tr.Spec.NumVB; vb++ {
			var flagged, settled, resume uint64
			flaggedBy := ""
			assignedNow := false
			for _, sg := range tr.Segs[vb] {
				if sg.ReqT < ck.TCommitCall && !sg.Rollback {
					resume = sg.Start
				}
				if sg.ReqT >= epoch && sg.ReqT < ck.TCommitCall {
					assignedNow = true
				}
			}
			if !assignedNow {
				continue
			}
			// A position is "advanced by an acknowledgement" when the library accepted the ack (it notifies
			// the offset tracker with the ack's seqno inside the ack call) and "by a non-document event" when
			// it notifies the tracker with the seqno of a system / seqno-advanced item. Everything it
			// tracked (including reserved-key events, which oblige no save) bounds the settled position.
			nondoc := map[uint64]bool{}
			for _, sg := range tr.Segs[vb] {
				for _, it := range sg.Items {
					if it.Kind == cbsim.KSystem || it.Kind == cbsim.KSeqnoAdv {
						nondoc[it.Seq] = true
					}
				}
			}
			openAck := map[uint64]bool{}
			for _, r := range tr.Log {
				if r.T >= ck.TCommitRet {
					break
				}
				if r.VB != vb {
					continue
				}
				if r.T >= ck.TCommitCall {
					// after the save began: only bounds what may legitimately be stored already
					if r.K == "cons.track" && r.Seq > settled {
						settled = r.Seq
					}
					continue
				}
				if r.T < epoch {
					continue
				}
				switch r.K {
				case "cons.ack.call":
					openAck[r.Seq] = true
					// every event acknowledged at once, inside its delivery and hence in delivery order, moves the position: an
					// acknowledgement the library silently ignored would otherwise look like one that "did not advance" anything
					if tr.Spec.PNow == 1 && tr.Spec.PDefer == 0 && len(tr.Spec.Rollbacks) == 0 && r.Seq > flagged && r.Seq > resume {
						flagged, flaggedBy = r.Seq, "ack"
						if r.Seq > settled {
							settled = r.Seq
						}
					}
				case "cons.ack.ret":
					delete(openAck, r.Seq)
				case "cons.track":
					if r.Seq > settled {
						settled = r.Seq
					}
					if openAck[r.Seq] && r.Seq >= flagged {
						flagged, flaggedBy = r.Seq, "ack"
					} else if nondoc[r.Seq] && r.Seq >= flagged {
						flagged, flaggedBy = r.Seq, "nondoc"
					}
				}
			}
			if resume > settled {
				settled = resume
			}
			if flagged == 0 || flagged <= resume {
				continue // not advanced by an acknowledgement or a non-document event in this session
			}
			st, ok := ck.Store[vb]
			if ok && st[1] >= flagged && st[1] <= settled {
				continue
			}
			// classify the shape of the loss
			shape := "other"
			ackDuringSave, ackAfterLastOKSave := false, false
			var lastOKSaveRet int64
			var saveCall int64
			for _, r := range tr.Log {
				if r.T >= ck.TCommitCall {
					break
				}
				switch r.K {
				case "md.save.call":
					saveCall = r.T
				case "md.save.ret":
					if r.S == "" {
						lastOKSaveRet = r.T
					}
					saveCall = 0
				case "cons.ack.call":
					if saveCall != 0 {
						ackDuringSave = true
					}
				}
			}
			for _, r := range tr.Log {
				if r.K == "cons.ack.ret" && r.T > lastOKSaveRet && r.T < ck.TCommitCall {
					ackAfterLastOKSave = true
				}
			}
			switch {
			case flaggedBy == "nondoc" && !ackAfterLastOKSave:
				shape = "advanced-only-by-nondocument-events"
			case ackDuringSave:
				shape = "ack-landed-inside-store-call"
			}
			have := "no checkpoint stored"
			if ok {
				have = fmt.Sprintf("stored seqno %d", st[1])
			}
			fs = append(fs, Finding{prop, "store-behind", prop + "/store-behind/" + shape,
				fmt.Sprintf("check %d: vb %d settled up to %d (by %s; furthest absorbed %d) before Commit() was called at tick %d, Commit() returned, %s", ci, vb, flagged, flaggedBy, settled, ck.TCommitCall, have)})
		}
		if ck.Stale && ck.IdleWrites != 0 {
			fs = append(fs, Finding{prop, "idle-write", prop + "/idle-write/stale-ack", fmt.Sprintf("check %d: after a completed save, %d acknowledgement(s) of events older than the tracked position changed nothing, yet the next Commit() performed %d checkpoint write(s)", ci, ck.StaleAcks, ck.IdleWrites)})
		}
		if ck.IdleWrites != 0 && !ck.NoIdle {
			fs = append(fs, Finding{prop, "idle-write", prop + "/idle-write", fmt.Sprintf("check %d: a Commit() issued right after a completed save with nothing new performed %d checkpoint write(s)", ci, ck.IdleWrites)})
		}
	}
	return fs
}

func c05Handoff(rng *rand.Rand, j int) *SessSpec {
	sp := &SessSpec{NumVB: 2 + rng.Intn(3), Nodes: 1, AckSeed: rng.Int63(), Backlog: map[int][][]ItemSpec{}, Backend: []string{"mem", "cb"}[j%2], PNow: 0, PDefer: 1}
	ctr := 0
	for vb := 0; vb < sp.NumVB; vb++ {
		var sn []ItemSpec
		for k := 0; k < 2+rng.Intn(3); k++ {
			ctr++
			sn = append(sn, ItemSpec{K: "m", Key: []byte(fmt.Sprintf("h%d", ctr)), Val: []byte("{}")})
		}
		sp.Backlog[vb] = [][]ItemSpec{sn}
	}
	a, b := 0, 1+rng.Intn(sp.NumVB-1)
	sp.Steps = []Step{{Op: "barrier"}, {Op: "ackbg", VB: a}, {Op: "waitbg"}, {Op: "armhook", Sel: "save.marks", N: 1, Ms: 120}, {Op: "commitasync"}, {Op: "sleep", Ms: 40},
		{Op: "ackbg", VB: b}, {Op: "waitbg"}, {Op: "sleep", Ms: 200}, {Op: "check"}}
	return sp
}

// c05PeriodicAcrossRebalance: automatic checkpointing, one rebalance, then a periodic save held inside the store call while a newer
// acknowledgement of the same vBucket is committed explicitly. The explicit save either waits for the periodic one or is
// not overwritten by it: after both finished the store holds the newer position.
func c05PeriodicAcrossRebalance(rng *rand.Rand, j int) *SessSpec {
	sp := &SessSpec{NumVB: 1 + rng.Intn(4), Nodes: 1, AckSeed: rng.Int63(), Backlog: map[int][][]ItemSpec{}, Backend: "mem", API: true,
		Membership: "dynamic", FirstInfo: [2]int{1, 1}, PNow: 0, PDefer: 1, Auto: true, IntervalMs: 15 + rng.Intn(30)}
	ctr := 0
	doc := func() ItemSpec {
		ctr++
		return ItemSpec{K: "m", Key: []byte(fmt.Sprintf("p%d", ctr)), Val: []byte("{}")}
	}
	for vb := 0; vb < sp.NumVB; vb++ {
		sp.Backlog[vb] = [][]ItemSpec{{doc()}}
	}
	vb := rng.Intn(sp.NumVB)
	sp.Steps = []Step{{Op: "barrier"}, {Op: "ack", Sel: "all"}, {Op: "commit"}}
	for r := 0; r < 1+j%2; r++ {
		sp.Steps = append(sp.Steps, Step{Op: "rebalanceapi"}, Step{Op: "waitrebalance", N: r + 1}, Step{Op: "barrier"})
	}
	sp.Steps = append(sp.Steps, Step{Op: "append", VB: vb, Items: []ItemSpec{doc(), doc()}}, Step{Op: "append", VB: vb, Items: []ItemSpec{doc()}}, Step{Op: "barrier"},
		Step{Op: "holdsave", N: 1}, Step{Op: "ackbg", VB: vb}, Step{Op: "waitbg"}, Step{Op: "waitsave"},
		Step{Op: "ackbg", VB: vb}, Step{Op: "waitbg"}, Step{Op: "commitasync"}, Step{Op: "sleep", Ms: 60 + rng.Intn(60)},
		Step{Op: "releasesave"}, Step{Op: "sleep", Ms: 120}, Step{Op: "check"})
	return sp
}

func c05Spec(rng *rand.Rand, i int) (*SessSpec, string) {
	kinds := []string{"plain", "inflight", "fail", "nondoc", "cb", "auto", "cbfault", "file"}
	kind := kinds[i%len(kinds)]
	if i%16 == 9 {
		kind = "selfstop"
	}
	if i%64 == 14 {
		kind = "bigsave"
	}
	if i%16 == 4 {
		kind = "ack-during-open"
	}
	sp := &SessSpec{NumVB: 1 + rng.Intn(6), Nodes: 1 + rng.Intn(2), AckSeed: rng.Int63(), Backlog: map[int][][]ItemSpec{}, Backend: "mem"}
	sp.PNow, sp.PDefer = 0.4, 0.5
	o := &HistOpts{NumVB: sp.NumVB, PReserved: 0.12, PSystem: 0.08, PSeqAdv: 0.2, MaxItems: 4}
	ctr := 0
	app := func() Step { return Step{Op: "append", VB: rng.Intn(sp.NumVB), Items: genSnap(rng, o, &ctr)} }
	ack := func() Step {
		return Step{Op: "ack", Sel: []string{"oldest", "newest", "random"}[rng.Intn(3)], N: 1 + rng.Intn(3)}
	}
	switch kind {
	case "cb", "cbfault":
		sp.Backend = "cb"
	case "file":
		sp.Backend = "file"
	case "auto":
		sp.Auto, sp.IntervalMs = true, 1+rng.Intn(5)
		sp.SlowSaveMs = rng.Intn(3)
	case "nondoc":
		sp.PNow, sp.PDefer = 0, 0
		if rng.Intn(2) == 0 {
			sp.PNow = 0.2 // a few acknowledgements elsewhere
		}
		o.PSystem, o.PSeqAdv, o.PReserved = 0.5, 0.6, 0.05
	}
	for vb := 0; vb < sp.NumVB; vb++ {
		if rng.Intn(2) == 0 || kind == "selfstop" {
			sp.Backlog[vb] = append(sp.Backlog[vb], genSnap(rng, o, &ctr))
		}
	}
	if kind == "ack-during-open" {
		// events of the vBuckets whose streams are already open are delivered and acknowledged while Open() is still waiting
		// for the last stream request; nothing is acknowledged afterwards: the next save stores those positions
		sp.NumVB = 2 + rng.Intn(4)
		sp.Nodes = 1
		sp.Backend = []string{"mem", "cb", "file"}[rng.Intn(3)]
		sp.PNow, sp.PDefer = 1, 0
		sp.Backlog = map[int][][]ItemSpec{}
		for vb := 0; vb < sp.NumVB-1; vb++ {
			sp.Backlog[vb] = append(sp.Backlog[vb], genSnap(rng, o, &ctr))
		}
		sp.ReqHold = map[int]int{sp.NumVB - 1: 1}
		sp.StartSteps = []Step{{Op: "waithold", N: 1}, {Op: "waitopen", VB: 0}, {Op: "sleep", Ms: 80}, {Op: "releasereq"}}
		sp.Steps = []Step{{Op: "barrier"}, {Op: "check"}}
		return sp, kind
	}
	if kind == "bigsave" {
		// one save that carries more than a hundred vBuckets, one of whose writes the store rejects: the save reports the
		// failure and the next one stores everything
		sp.NumVB = 130 + rng.Intn(60)
		sp.Nodes = 1
		sp.Backend = "cb"
		sp.PNow, sp.PDefer = 1, 0
		sp.Backlog = map[int][][]ItemSpec{}
		for vb := 0; vb < sp.NumVB; vb++ {
			ctr++
			sp.Backlog[vb] = [][]ItemSpec{{{K: "m", Key: []byte(fmt.Sprintf("b%d", ctr)), Val: []byte("{}")}}}
		}
		sp.CBFaults = []CBFault{{Nth: 1 + rng.Intn(100), Kind: "status", Status: cbsim.StNoAccess}}
		sp.Steps = []Step{{Op: "barrier"}, {Op: "commit"}, {Op: "commit"}, {Op: "check"}}
		return sp, kind
	}
	if kind == "selfstop" {
		// finite mode with automatic checkpointing and a long interval: every stream ends at the sequence number sampled at
		// start-up, the client stops on its own, and the save performed during that shutdown is the only one
		sp.Mode, sp.Auto, sp.IntervalMs = "finite", true, 60000
		sp.Backend = []string{"mem", "cb", "file"}[rng.Intn(3)]
		sp.PNow, sp.PDefer = 0.8, 0
		if rng.Intn(2) == 0 {
			sp.PNow = 1
		}
		sp.Steps = []Step{{Op: "selfstopcheck", Ms: 8000}}
		return sp, kind
	}
	rounds := 1 + rng.Intn(3)
	for r := 0; r < rounds; r++ {
		for k := 0; k < 2+rng.Intn(6); k++ {
			sp.Steps = append(sp.Steps, app())
			if rng.Intn(3) == 0 {
				sp.Steps = append(sp.Steps, ack())
			}
			if rng.Intn(5) == 0 {
				sp.Steps = append(sp.Steps, Step{Op: "commit"})
			}
		}
		switch kind {
		case "inflight":
			// an explicit save is held inside the store call while acknowledgements land
			sp.Steps = append(sp.Steps, Step{Op: "barrier"}, Step{Op: "ack", Sel: "oldest", N: 1 + rng.Intn(2)}, Step{Op: "holdsave"}, Step{Op: "commitasync"})
			for k := 0; k < 1+rng.Intn(3); k++ {
				sp.Steps = append(sp.Steps, ack())
				if rng.Intn(2) == 0 {
					sp.Steps = append(sp.Steps, app())
				}
			}
			if rng.Intn(2) == 0 {
				sp.Steps = append(sp.Steps, Step{Op: "commitasync"}) // overlapping explicit saves
			}
			sp.Steps = append(sp.Steps, Step{Op: "releasesave"}, Step{Op: "checknocommit"})
			if rng.Intn(2) == 0 {
				sp.Steps = append(sp.Steps, ack())
			}
		case "fail":
			base := 0
			for _, st := range sp.Steps {
				if st.Op == "commit" || st.Op == "check" {
					base += 2
				}
			}
			pat := [][]int{{1}, {1, 2}, {2}, {1, 3}}[rng.Intn(4)]
			for _, p := range pat {
				sp.FailSaves = append(sp.FailSaves, base+p)
			}
			sp.Steps = append(sp.Steps, Step{Op: "barrier"}, Step{Op: "ack", Sel: "oldest", N: 2}, Step{Op: "commit"}, Step{Op: "commit"})
			if rng.Intn(2) == 0 {
				sp.Steps = append(sp.Steps, ack(), Step{Op: "commit"})
			}
			sp.Steps = append(sp.Steps, Step{Op: "commit"})
		case "cbfault":
			n := 1 + rng.Intn(4)
			kinds := []string{"status", "silent", "delay", "status"}
			f := CBFault{Nth: n, Kind: kinds[rng.Intn(4)], Status: []uint16{cbsim.StNoAccess, cbsim.StInternal, 0x82}[rng.Intn(3)], Ms: 20 + rng.Intn(100)}
			sp.CBFaults = append(sp.CBFaults, f)
			if rng.Intn(2) == 0 {
				sp.CBFaults = append(sp.CBFaults, CBFault{Nth: n + 1 + rng.Intn(3), Kind: "status", Status: cbsim.StNoAccess})
			}
			sp.Steps = append(sp.Steps, Step{Op: "barrier"}, Step{Op: "ack", Sel: "all"}, Step{Op: "commit"}, Step{Op: "commit"})
		}
		sp.Steps = append(sp.Steps, Step{Op: "check"})
	}
	if kind == "file" && i%16 == 7 {
		// the file system rejects a save (the directory is gone), then works again: the next save stores what the rejected one carried
		sp.Steps = append(sp.Steps, app(), Step{Op: "barrier"}, Step{Op: "ack", Sel: "all"}, Step{Op: "breakfile"}, Step{Op: "commit"}, Step{Op: "fixfile"}, Step{Op: "commit"}, Step{Op: "check"})
	}
	if kind == "file" && i%16 == 15 {
		// the same with a save whose temporary file is written but cannot be moved into place
		sp.Steps = append(sp.Steps, app(), Step{Op: "barrier"}, Step{Op: "ack", Sel: "all"}, Step{Op: "breakfile", Sel: "rename"}, Step{Op: "commit"}, Step{Op: "fixfile", Sel: "rename"}, Step{Op: "commit"}, Step{Op: "check"})
	}
	if kind == "plain" || kind == "cb" || kind == "file" {
		// out-of-order settling: the newest pending events first, a save, then the older ones ("stale" acknowledgements)
		sp.Steps = append(sp.Steps, app(), app(), Step{Op: "barrier"}, Step{Op: "ack", Sel: "newest", N: 2 + rng.Intn(3)}, Step{Op: "stalecheck"})
	}
	return sp, kind
}

func init() {
	drv.Register(&drv.Prop{
		ID: "C05", Level: "exploration", Parallel: 10, Batch: 8, MinConclusive: 50,
		Rule: "sessions (manual and periodic checkpointing; custom recording/blocking/failing store, real couchbase-xattr store with scripted write faults, real file store) with deferred/out-of-order acknowledgements; " +
			"acknowledgements placed before the dump, inside a held store call and after it; overlapping explicit saves; rejected and timed-out saves followed by successful ones; vBuckets advanced only by system / seqno-advanced events; " +
			"after a rebalance with automatic checkpointing: a periodic save held inside the store call while a newer acknowledgement of the same vBucket is committed explicitly. " +
			"Oracle at each barrier (all deliveries observed, no save in flight): Commit() returns => for every vBucket advanced by an acknowledgement or non-document event, flagged <= stored seqno <= settled; a second Commit() performs 0 writes. " +
			"Non-trivial: an acknowledgement between md.save.call and md.save.ret, or a failing save, or a vBucket advanced only by non-document events; distinct = distinct abstract traces",
		Assumptions: []string{"settled is cumulative per vBucket (DESIGN §3 rule 1)", "a reserved-key event advances the position without obliging a save (C14), so the stored value may lie between the flagged and the settled position"},
		Gen: func(seed int64, tier string) []drv.Scenario {
			rng := rand.New(rand.NewSource(seed))
			n := 480
			if tier == "thorough" {
				n = 5000
			}
			var out []drv.Scenario
			for i := 0; i < n; i++ {
				sp, kind := c05Spec(rng, i)
				sc := drv.Scenario{Kind: kind, Seed: seed, Params: mustJSON(sp), TimeoutS: 90}
				if tier == "thorough" && i%5 == 0 {
					sc.Race = true
				}
				out = append(out, sc)
			}
			// an acknowledgement that lands exactly between the save's look at the dirty marks and its taking them over (injected
			// delay at the guarded hook point save.marks): this save or the next one stores it
			xr := rand.New(rand.NewSource(seed*61 + 23))
			for j := 0; j < n/20; j++ {
				out = append(out, drv.Scenario{Kind: "ack-in-handoff", Seed: seed, Params: mustJSON(c05Handoff(xr, j)), TimeoutS: 90})
			}
			// after a rebalance: a slow periodic save overlapped by an explicit save of a newer position of the same vBucket
			pr := rand.New(rand.NewSource(seed*67 + 5))
			for j := 0; j < n/40; j++ {
				out = append(out, drv.Scenario{Kind: "periodic-across-rebalance", Seed: seed, Params: mustJSON(c05PeriodicAcrossRebalance(pr, j)), TimeoutS: 120, Solo: true})
			}
			return out
		},
		Run: func(sc drv.Scenario) drv.Result {
			var sp SessSpec
			if err := json.Unmarshal(sc.Params, &sp); err != nil {
				return drv.Result{Verdict: drv.Inconclusive, Detail: err.Error()}
			}
			tr := RunSession(&sp)
			fs := OracleDurable(tr, "C05")
			// a stored checkpoint is the position of one settled event: seqno together with that event's snapshot and branch
			for _, f := range OracleTuples(tr) {
				if strings.Contains(f.Key, "/stored") {
					fs = append(fs, Finding{"C05", "stored-tuple", "C05/stored-tuple/" + f.Key[strings.LastIndex(f.Key, "/")+1:], f.Detail})
				}
			}
			nt := len(sp.FailSaves) > 0 || len(sp.CBFaults) > 0 || sc.Kind == "nondoc"
			var saveCall int64
			for _, r := range tr.Log {
				switch r.K {
				case "md.save.call":
					saveCall = r.T
				case "md.save.ret":
					saveCall = 0
				case "cons.ack.call":
					if saveCall != 0 {
						nt = true
					}
				}
			}
			var checks []any
			for _, ck := range tr.Checks {
				checks = append(checks, map[string]any{"store_after_commit": ck.Store, "idle_commit_writes": ck.IdleWrites})
			}
			sample := map[string]any{"backend": sp.Backend, "vbuckets": sp.NumVB, "acks": tr.count("cons.ack.call"), "saves": tr.count("md.save.call"), "writes": tr.count("md.write") + tr.count("sim.xattrwrite"),
				"failed_saves": sp.FailSaves, "cb_faults": sp.CBFaults, "checks": checks}
			r := sessionResult("C05", tr, fs, nt, sample)
			r.Checks = len(tr.Checks) * sp.NumVB
			return r
		},
		OnDeath: func(sc drv.Scenario, out drv.ChildOutcome) drv.Result {
			return drv.Result{Verdict: drv.Inconclusive, Detail: "child died: " + drv.PanicLine(out.Stderr), Foreign: []string{"process death: " + drv.PanicLine(out.Stderr)}}
		},
	})
}
