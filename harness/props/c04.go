package props

import (
	"encoding/json"
	"fmt"
	"math/rand"
	"time"

	"github.com/anishathalye/porcupine"

	"verif/harness/cbsim"
	"verif/harness/drv"
)

// C04 — tracked position only moves forward, equals the furthest settled event, and is range-guarded.

type regOp struct {
	Write bool
	Seq   uint64
}

var maxRegModel = porcupine.Model{
	Init: func() interface{} { return uint64(0) },
	Step: func(state, input, output interface{}) (bool, interface{}) {
		st := state.(uint64)
		in := input.(regOp)
		if in.Write {
			if in.Seq > st {
				return true, in.Seq
			}
			return true, st
		}
		return output.(uint64) == st, st
	},
	DescribeOperation: func(input, output interface{}) string {
		in := input.(regOp)
		if in.Write {
			return fmt.Sprintf("settle(%d)", in.Seq)
		}
		return fmt.Sprintf("read()->%d", output.(uint64))
	},
}

func OraclePosition(tr *Trace) ([]Finding, int) {
	var fs []Finding
	lin := 0
	// epochs: a new stream open resets the position to the store
	var epochStart []int64
	for _, r := range tr.Log {
		if r.K == "eh.BSStart" {
			epochStart = append(epochStart, r.T)
		}
	}
	epochOf := func(t int64) int {
		e := 0
		for i, s := range epochStart {
			if t >= s {
				e = i
			}
		}
		return e
	}
	// (a) monotone TrackOffset notifications per vBucket and epoch
	last := map[[2]int]uint64{}
	for _, r := range tr.Log {
		if r.K != "cons.track" {
			continue
		}
		k := [2]int{r.VB, epochOf(r.T)}
		if r.Seq < last[k] {
			fs = append(fs, Finding{"C04", "monotone", "C04/monotone/tracker", fmt.Sprintf("vb %d: offset tracker notified with %d after %d (tick %d)", r.VB, r.Seq, last[k], r.T)})
		}
		if r.Seq > last[k] {
			last[k] = r.Seq
		}
	}
	// expected position per vb in the last epoch
	lastEpoch := len(epochStart) - 1
	if lastEpoch < 0 {
		return fs, 0
	}
	assigned := map[int]bool{}
	resume := map[int]uint64{}
	for vb, segs := range tr.Segs {
		for _, sg := range segs {
			if epochOf(sg.ReqT) == lastEpoch {
				assigned[vb] = true
				if !sg.Rollback {
					resume[vb] = sg.Start
				} else if sg.FailedSeq > resume[vb] {
					resume[vb] = sg.FailedSeq
				}
			}
		}
	}
	expected := map[int]uint64{}
	for vb := range assigned {
		expected[vb] = resume[vb]
	}
	accepted := func(vb int, seq uint64, t int64) {
		if assigned[vb] && epochOf(t) == lastEpoch && seq > expected[vb] {
			expected[vb] = seq
		}
	}
	deliveredEpoch := map[[2]uint64]int{}
	for _, e := range tr.Events {
		deliveredEpoch[[2]uint64{uint64(e.VB), e.Seq}] = epochOf(e.T)
	}
	byAck := map[int]uint64{} // furthest acknowledged seqno per vBucket (an acknowledgement marks the vBucket for the next save)
	for _, r := range tr.Log {
		if r.K == "cons.ack.ret" {
			accepted(r.VB, r.Seq, r.T)
			if assigned[r.VB] && epochOf(r.T) == lastEpoch && r.Seq > byAck[r.VB] {
				byAck[r.VB] = r.Seq
			}
		}
	}
	for vb, segs := range tr.Segs {
		for _, sg := range segs {
			for _, it := range sg.Items {
				if sg.Rollback && it.Seq <= sg.FailedSeq {
					continue
				}
				if it.Kind == cbsim.KSystem || it.Kind == cbsim.KSeqnoAdv || (isDoc(it.Kind) && reservedKey([]byte(it.Key)) && !(tr.Spec.SkipUntil != 0 && int64(it.Cas/1000000000) < tr.Spec.SkipUntil)) {
					accepted(vb, it.Seq, it.T)
				}
			}
		}
	}
	// (b) final quiescent read / tracker / next save
	var final *Read
	for _, rd := range tr.Reads {
		if rd.OK {
			final = rd
		}
	}
	if final != nil && tr.BarrierTimeouts == 0 {
		// only a read taken after the last ack/track is a quiescent read
		quiescent := true
		for _, r := range tr.Log {
			if (r.K == "cons.ack.call" || r.K == "cons.track" || r.K == "cons.ack.ret") && r.T > final.TCall {
				quiescent = false
			}
		}
		if quiescent {
			for vb, want := range expected {
				got, ok := final.Seq[vb]
				if !ok {
					fs = append(fs, Finding{"C04", "position", "C04/position/api-missing", fmt.Sprintf("vb %d is assigned but absent from /states/offset", vb)})
				} else if got != want {
					fs = append(fs, Finding{"C04", "position", "C04/position/api", fmt.Sprintf("vb %d: /states/offset reports %d, furthest settled position is %d (resume %d)", vb, got, want, resume[vb])})
				}
			}
			for vb := range final.Seq {
				// the file store hands out every entry its file holds, also those of vBuckets that are assigned to another member
				// by now: such an entry is listed with its stored value, it was not created by an acknowledgement (the
				// acknowledgement-side clauses of OracleRange apply to it all the same)
				if !assigned[vb] && !(tr.Spec != nil && tr.Spec.Backend == "file") {
					fs = append(fs, Finding{"C04", "range", "C04/range/api-foreign-vb", fmt.Sprintf("/states/offset lists vb %d which is not in the assigned range", vb)})
				}
			}
		}
	}
	for vb, want := range expected {
		k := [2]int{vb, lastEpoch}
		if tr.BarrierTimeouts == 0 && last[k] != 0 && last[k] != want && want > resume[vb] {
			fs = append(fs, Finding{"C04", "position", "C04/position/tracker", fmt.Sprintf("vb %d: last tracker notification %d, furthest settled position %d", vb, last[k], want)})
		}
	}
	// next save writes the position
	for _, ck := range tr.Checks {
		for vb, want := range expected {
			if st, ok := ck.Store[vb]; ok && epochOf(ck.TCommitCall) == lastEpoch && st[1] > want {
				fs = append(fs, Finding{"C04", "position", "C04/position/store-ahead", fmt.Sprintf("vb %d: store holds %d, beyond the furthest settled position %d", vb, st[1], want)})
			}
		}
		// ... and nothing less: a check taken after the last acknowledgement (its Commit() is never a rejected one)
		settledLater := false
		for _, r := range tr.Log {
			if (r.K == "cons.ack.call" || r.K == "cons.ack.ret" || r.K == "cons.track") && r.T > ck.TCommitCall {
				settledLater = true
			}
		}
		if !settledLater && tr.BarrierTimeouts == 0 && epochOf(ck.TCommitCall) == lastEpoch && !tr.Spec.ReadOnly {
			for vb, want := range expected {
				// positions reached by reserved-key documents alone are tracked but deliberately not marked for saving
				if st := ck.Store[vb]; want > resume[vb] && st[1] < want && byAck[vb] == want {
					fs = append(fs, Finding{"C04", "position", "C04/position/store-behind", fmt.Sprintf("vb %d: the save after the last acknowledgement left %d in the store, the tracked (furthest settled) position is %d", vb, st[1], want)})
				}
			}
		}
	}
	// the store never moves backwards (sessions without a rollback or fail-over: one branch per vBucket)
	if len(tr.Spec.Rollbacks) == 0 && tr.Log != nil {
		branchChange := false
		for _, r := range tr.Log {
			if r.K == "ctl.failover" {
				branchChange = true
			}
		}
		if !branchChange {
			high := map[int]storeWrite{}
			for _, w := range storeWrites(tr) {
				if h, ok := high[w.VB]; ok && w.Seq < h.Seq && w.Tup.uuid == h.Tup.uuid {
					fs = append(fs, Finding{"C04", "position", "C04/position/store-backwards", fmt.Sprintf("vb %d: store write at tick %d holds seqno %d after the store held %d (write at tick %d)", w.VB, w.T, w.Seq, h.Seq, h.T)})
				}
				if h, ok := high[w.VB]; !ok || w.Seq >= h.Seq {
					high[w.VB] = w
				}
			}
		}
	}
	// (c) reads racing with acknowledgements: per-vBucket max-register linearizability (last epoch only)
	for vb := range assigned {
		var ops []porcupine.Operation
		cid := 0
		if resume[vb] > 0 {
			ops = append(ops, porcupine.Operation{ClientId: cid, Input: regOp{true, resume[vb]}, Call: epochStart[lastEpoch] - 1, Output: uint64(0), Return: epochStart[lastEpoch]})
			cid++
		}
		calls := map[uint64]int64{}
		for _, r := range tr.Log {
			if r.VB != vb || epochOf(r.T) != lastEpoch {
				continue
			}
			switch r.K {
			case "cons.ack.call":
				calls[r.Seq] = r.T
			case "cons.ack.ret":
				if c, ok := calls[r.Seq]; ok {
					ops = append(ops, porcupine.Operation{ClientId: cid, Input: regOp{true, r.Seq}, Call: c, Output: uint64(0), Return: r.T})
					cid++
				}
			}
		}
		// absorbed events: settle between the send tick and the tracker notification
		sentT := map[uint64]int64{}
		for _, sg := range tr.Segs[vb] {
			for _, it := range sg.Items {
				if it.Kind == cbsim.KSystem || it.Kind == cbsim.KSeqnoAdv || (isDoc(it.Kind) && reservedKey([]byte(it.Key))) {
					sentT[it.Seq] = it.T
				}
			}
		}
		for _, r := range tr.Log {
			if r.K == "cons.track" && r.VB == vb && epochOf(r.T) == lastEpoch {
				if st, ok := sentT[r.Seq]; ok {
					ops = append(ops, porcupine.Operation{ClientId: cid, Input: regOp{true, r.Seq}, Call: st, Output: uint64(0), Return: r.T})
					cid++
					delete(sentT, r.Seq)
				}
			}
		}
		nreads := 0
		for _, rd := range tr.Reads {
			if !rd.OK || rd.TCall < epochStart[lastEpoch] {
				continue
			}
			// a read overlapping the open phase may see the map before it is filled
			v, ok := rd.Seq[vb]
			if !ok {
				continue
			}
			ops = append(ops, porcupine.Operation{ClientId: cid, Input: regOp{false, 0}, Call: rd.TCall, Output: v, Return: rd.TRet})
			cid++
			nreads++
		}
		if nreads == 0 {
			continue
		}
		lin++
		res := porcupine.CheckOperationsTimeout(maxRegModel, ops, 20*time.Second)
		if res == porcupine.Illegal {
			fs = append(fs, Finding{"C04", "linearizable", "C04/read-not-linearizable", fmt.Sprintf("vb %d: the %d reads of /states/offset cannot be explained by any linearization of the %d settle operations (max-register)", vb, nreads, len(ops)-nreads)})
		}
	}
	return fs, lin
}

// OracleRange: after a rebalance shrank the range, acknowledgements for vBuckets outside it are ignored.
func OracleRange(tr *Trace) []Finding {
	var fs []Finding
	var lastARE int64
	for _, r := range tr.Log {
		if r.K == "eh.ARE" {
			lastARE = r.T
		}
	}
	if lastARE == 0 {
		return nil
	}
	assigned := map[int]bool{}
	for vb, segs := range tr.Segs {
		for _, sg := range segs {
			if sg.NextReqT == 0 && sg.ReqT > 0 {
				// last request of this vb: is it after the last rebalance started?
				var brs int64
				for _, r := range tr.Log {
					if r.K == "eh.BRS" {
						brs = r.T
					}
				}
				if sg.ReqT > brs {
					assigned[vb] = true
				}
			}
		}
	}
	stale := 0
	for _, r := range tr.Log {
		if r.T < lastARE {
			continue
		}
		switch r.K {
		case "cons.ack.call":
			if !assigned[r.VB] {
				stale++
			}
		case "cons.track":
			if !assigned[r.VB] {
				fs = append(fs, Finding{"C04", "range", "C04/range/tracker", fmt.Sprintf("vb %d is outside the assigned range after the rebalance, yet the offset tracker was notified (seq %d)", r.VB, r.Seq)})
			}
		case "md.write":
			if !assigned[r.VB] {
				fs = append(fs, Finding{"C04", "range", "C04/range/store-write", fmt.Sprintf("vb %d is outside the assigned range after the rebalance, yet a checkpoint (seq %d) was written for it", r.VB, r.Seq)})
			}
		case "sim.xattrwrite":
			if vb, t, ok := decodeXattrWrite(r.S); ok && !assigned[vb] {
				fs = append(fs, Finding{"C04", "range", "C04/range/store-write", fmt.Sprintf("vb %d is outside the assigned range after the rebalance, yet a checkpoint (seq %d) was written for it", vb, t.seq)})
			}
		}
	}
	_ = stale
	return fs
}

func c04Spec(rng *rand.Rand, i int) (*SessSpec, string) {
	sp := &SessSpec{NumVB: 2 + rng.Intn(7), Nodes: 1 + rng.Intn(2), AckSeed: rng.Int63(), Backlog: map[int][][]ItemSpec{}, Backend: []string{"mem", "cb"}[rng.Intn(2)], API: true}
	sp.PNow, sp.PDefer = 0.15, 0.85
	o := &HistOpts{NumVB: sp.NumVB, PReserved: 0.1, PSystem: 0.06, PSeqAdv: 0.15, MaxItems: 5}
	ctr := 0
	kind := "acks"
	if i%4 == 3 {
		kind = "range"
	}
	if i%8 == 5 {
		kind = "gap"
	}
	if i%8 == 1 {
		kind = "ackrace"
	}
	for vb := 0; vb < sp.NumVB; vb++ {
		for s := 0; s < 1+rng.Intn(3); s++ {
			sp.Backlog[vb] = append(sp.Backlog[vb], genSnap(rng, o, &ctr))
		}
	}
	if rng.Intn(3) == 0 {
		// resume from a stored position
		vb := rng.Intn(sp.NumVB)
		sp.PreStore = map[int][4]uint64{vb: {0xabc000 + uint64(vb), 1, 1, 1}}
	}
	if kind == "acks" && rng.Intn(4) == 0 {
		o.PSeqAdv = 0.5
		c03AddRollback(rng, sp, o, &ctr) // catch-up after a rollback replays seqno-advanced items below the tracked position
	}
	if kind == "acks" {
		sp.Steps = append(sp.Steps, Step{Op: "barrier"}, Step{Op: "readers", N: 2})
		if rng.Intn(3) == 0 {
			// a fail-over: new branch uuid, transient stream end, library re-opens; older deliveries are acknowledged afterwards
			vb := rng.Intn(sp.NumVB)
			if _, rb := sp.Rollbacks[vb]; !rb {
				sp.Steps = append(sp.Steps, Step{Op: "ack", Sel: "newest", N: 2}, Step{Op: "failover", VB: vb, N: 1 + rng.Intn(9)}, Step{Op: "end", VB: vb, St: 2}, Step{Op: "waitreopen", VB: vb, N: 2},
					Step{Op: "append", VB: vb, Items: genSnap(rng, o, &ctr)}, Step{Op: "barrier"}, Step{Op: "ack", Sel: "newest", N: 3})
			}
		}
		for k := 0; k < 3+rng.Intn(8); k++ {
			switch rng.Intn(6) {
			case 0:
				sp.Steps = append(sp.Steps, Step{Op: "append", VB: rng.Intn(sp.NumVB), Items: genSnap(rng, o, &ctr)})
			case 1:
				sp.Steps = append(sp.Steps, Step{Op: "ack", Sel: "newest", N: 1 + rng.Intn(3)})
			case 2:
				sp.Steps = append(sp.Steps, Step{Op: "ack", Sel: "random", N: 1 + rng.Intn(4)})
			case 3:
				sp.Steps = append(sp.Steps, Step{Op: "reack"})
			case 4:
				sp.Steps = append(sp.Steps, Step{Op: "ackpar", Sel: []string{"random", "newest", "oldest"}[rng.Intn(3)]})
			case 5:
				sp.Steps = append(sp.Steps, Step{Op: "commit"})
			}
		}
		if sp.Backend == "mem" && rng.Intn(2) == 0 {
			// a save rejected by the store, then successful ones: the next save still has to write the tracked position of
			// every vBucket, also of those that stay quiet afterwards
			sp.Steps = append(sp.Steps, Step{Op: "ack", Sel: "random", N: 2}, Step{Op: "failnext"}, Step{Op: "commit"}, Step{Op: "clearfail"}, Step{Op: "commit"})
		}
		sp.Steps = append(sp.Steps, Step{Op: "barrier"}, Step{Op: "ackpar", Sel: "random"}, Step{Op: "reack"}, Step{Op: "reack"}, Step{Op: "stopreaders"}, Step{Op: "barrier"}, Step{Op: "read"}, Step{Op: "check"})
		return sp, kind
	}
	if kind == "ackrace" {
		// an acknowledgement issued from a worker goroutine is descheduled inside the library between the regression
		// guard and the store (injected delay at hook point setoffset.checked) while the stream goroutine settles a
		// newer, library-absorbed event (seqno-advanced / system event) of the same vBucket
		sp.PNow, sp.PDefer = 0, 1
		sp.Backlog = map[int][][]ItemSpec{}
		ctr2 := 0
		mk := func() ItemSpec {
			ctr2++
			return ItemSpec{K: "m", Key: []byte(fmt.Sprintf("r%d", ctr2)), Val: []byte("{}")}
		}
		for vb := 0; vb < sp.NumVB; vb++ {
			sp.Backlog[vb] = [][]ItemSpec{{mk(), mk()}}
		}
		sp.PreStore = nil
		vb := rng.Intn(sp.NumVB)
		absorbed := []ItemSpec{{K: "a"}, {K: "s", Key: []byte("collX"), Cid: 9}}[rng.Intn(2)]
		sp.Steps = append(sp.Steps, Step{Op: "barrier"}, Step{Op: "armhook", Sel: "setoffset.checked", N: 1, Ms: 100 + rng.Intn(80)}, Step{Op: "ackbg", VB: vb}, Step{Op: "sleep", Ms: 25},
			Step{Op: "append", VB: vb, Items: []ItemSpec{mk(), absorbed}}, Step{Op: "barrier"}, Step{Op: "waitbg"}, Step{Op: "barrier"}, Step{Op: "read"}, Step{Op: "check"})
		return sp, kind
	}
	if kind == "gap" {
		// out-of-order settling, then a rebalance with a delay; the older events are acknowledged (and a save is
		// requested) while the stream is closed, between AfterStreamStop and the reopen
		sp.Membership = "kubernetesHa"
		sp.FirstInfo = [2]int{1, 1}
		sp.RebalanceDelayMs = 60 + rng.Intn(80)
		sp.PNow, sp.PDefer = 0, 1
		hold := "BRE"
		if i%16 == 13 {
			hold = "ASS" // ... or from inside the AfterStreamStop callback itself (a batching consumer that flushes when told the stream stopped)
		}
		sp.Steps = append(sp.Steps, Step{Op: "barrier"}, Step{Op: "ack", Sel: "newest", N: 2 + rng.Intn(4)}, Step{Op: "commit"},
			Step{Op: "holdeh", Sel: hold}, Step{Op: "membership", N: 1, VB: 2}, Step{Op: "waitheld", Sel: hold},
			Step{Op: "ack", Sel: []string{"oldest", "random"}[rng.Intn(2)], N: 2 + rng.Intn(6)})
		if rng.Intn(2) == 0 {
			sp.Steps = append(sp.Steps, Step{Op: "commit"})
		}
		sp.Steps = append(sp.Steps, Step{Op: "releaseeh"}, Step{Op: "waitrebalance", N: 1}, Step{Op: "barrier"}, Step{Op: "read"}, Step{Op: "check"})
		return sp, kind
	}
	// range: dynamic membership, the range shrinks, stale acknowledgements follow
	sp.Membership = "dynamic"
	sp.FirstInfo = [2]int{1, 1}
	sp.PNow, sp.PDefer = 0, 1
	total := 2 + rng.Intn(2)
	if total > sp.NumVB {
		total = sp.NumVB
	}
	member := 1 + rng.Intn(total)
	sp.Steps = append(sp.Steps, Step{Op: "barrier"}, Step{Op: "ack", Sel: "random", N: 2}, Step{Op: "commit"},
		Step{Op: "membership", N: member, VB: total}, Step{Op: "waitrebalance", N: 1}, Step{Op: "barrier"},
		Step{Op: "ackpar", Sel: "random"}, Step{Op: "reack"}, Step{Op: "commit"}, Step{Op: "barrier"}, Step{Op: "read"}, Step{Op: "commit"})
	return sp, kind
}

func init() {
	drv.Register(&drv.Prop{
		ID: "C04", Level: "exploration", Parallel: 12, Batch: 1, MinConclusive: 40,
		Rule: "acks: deliveries on 2-8 vBuckets are acknowledged in reverse / random order, repeatedly, late, and concurrently from one goroutine per vBucket while two readers poll GET /states/offset; " +
			"oracle: TrackOffset notifications never decrease, the quiescent read / last notification / next save equal max(resume, furthest settled), and each vBucket's reads are linearizable against a max-register (porcupine, partitioned by vBucket). " +
			"range: dynamic membership shrinks the assigned range (PUT /membership/info), then events delivered before are acknowledged: no tracker notification, offsets entry or checkpoint write may appear for a vBucket outside the range; moved-range: a rebalance to another range of the same size, acknowledgements in the new range; gap: acknowledgements while the stream is closed for a rebalance, also from inside AfterStreamStop. " +
			"Non-trivial: an out-of-order or repeated acknowledgement with >=2 vBuckets acknowledged concurrently, or a stale acknowledgement after a range change; distinct = distinct abstract traces",
		Assumptions: []string{"acknowledgements of one vBucket are issued one at a time (harness lock per vBucket), as the quantifier states", "reads go through the public HTTP API (debug mode)"},
		Gen: func(seed int64, tier string) []drv.Scenario {
			rng := rand.New(rand.NewSource(seed))
			n := 240
			if tier == "thorough" {
				n = 3000
			}
			var out []drv.Scenario
			for i := 0; i < n; i++ {
				sp, kind := c04Spec(rng, i)
				sc := drv.Scenario{Kind: kind, Seed: seed, Params: mustJSON(sp), TimeoutS: 120}
				if tier == "thorough" && i%5 == 0 {
					sc.Race = true
				}
				if i%3 == 0 {
					sc.GoMaxProcs = []int{2, 4, 16}[rng.Intn(3)]
				}
				out = append(out, sc)
			}
			// an application that commits through a listener context it received before a rebalance: what is written is the
			// position of the session that is open now
			xr := rand.New(rand.NewSource(seed*73 + 2))
			for j := 0; j < n/20; j++ {
				sp := &SessSpec{NumVB: 2 + xr.Intn(4), Nodes: 1, AckSeed: xr.Int63(), Backlog: map[int][][]ItemSpec{}, Backend: []string{"mem", "cb", "file"}[j%3], API: true,
					Membership: "dynamic", FirstInfo: [2]int{1, 1}, PNow: 0, PDefer: 1}
				o := &HistOpts{NumVB: sp.NumVB, PSystem: 0.05, PSeqAdv: 0.1, MaxItems: 4}
				ctr := 0
				for vb := 0; vb < sp.NumVB; vb++ {
					sp.Backlog[vb] = append(sp.Backlog[vb], genSnap(xr, o, &ctr))
				}
				sp.Steps = []Step{{Op: "barrier"}, {Op: "ack", Sel: "all"}, {Op: "commit"}, {Op: "rebalanceapi"}, {Op: "waitrebalance", N: 1}, {Op: "barrier"}}
				for vb := 0; vb < sp.NumVB; vb++ {
					sp.Steps = append(sp.Steps, Step{Op: "append", VB: vb, Items: genSnap(xr, o, &ctr)})
				}
				sp.Steps = append(sp.Steps, Step{Op: "barrier"}, Step{Op: "ack", Sel: "all"}, Step{Op: "commitold"}, Step{Op: "read"}, Step{Op: "check"})
				out = append(out, drv.Scenario{Kind: "old-context", Seed: seed, Params: mustJSON(sp), TimeoutS: 120, Solo: true})
			}
			// a rebalance that moves the member to another range of the SAME size (1/2 -> 2/2): acknowledgements in the new range
			// move the position, late ones for the old range are refused
			mr := rand.New(rand.NewSource(seed*79 + 9))
			for j := 0; j < n/20; j++ {
				sp := &SessSpec{NumVB: 2 * (1 + mr.Intn(3)), Nodes: 1, AckSeed: mr.Int63(), Backlog: map[int][][]ItemSpec{}, Backend: []string{"mem", "cb", "file"}[j%3], API: true,
					Membership: "dynamic", FirstInfo: [2]int{1 + j%2, 2}, PNow: 0, PDefer: 1}
				o := &HistOpts{NumVB: sp.NumVB, PSystem: 0.05, PSeqAdv: 0.1, MaxItems: 4}
				ctr := 0
				for vb := 0; vb < sp.NumVB; vb++ {
					sp.Backlog[vb] = append(sp.Backlog[vb], genSnap(mr, o, &ctr))
				}
				sp.Steps = []Step{{Op: "barrier"}, {Op: "ack", Sel: "newest", N: 1 + mr.Intn(2)}, {Op: "commit"}, {Op: "membership", N: 2 - j%2, VB: 2}, {Op: "waitrebalance", N: 1}, {Op: "barrier"}}
				for vb := 0; vb < sp.NumVB; vb++ {
					sp.Steps = append(sp.Steps, Step{Op: "append", VB: vb, Items: genSnap(mr, o, &ctr)})
				}
				sp.Steps = append(sp.Steps, Step{Op: "barrier"}, Step{Op: "ackpar", Sel: "random"}, Step{Op: "commit"}, Step{Op: "barrier"}, Step{Op: "read"}, Step{Op: "check"})
				out = append(out, drv.Scenario{Kind: "moved-range", Seed: seed, Params: mustJSON(sp), TimeoutS: 120, Solo: true})
			}
			return out
		},
		Run: func(sc drv.Scenario) drv.Result {
			var sp SessSpec
			if err := json.Unmarshal(sc.Params, &sp); err != nil {
				return drv.Result{Verdict: drv.Inconclusive, Detail: err.Error()}
			}
			tr := RunSession(&sp)
			fs, lin := OraclePosition(tr)
			if sc.Kind == "range" || sc.Kind == "moved-range" {
				fs = append(fs, OracleRange(tr)...)
			}
			// non-trivial
			nt := false
			lastAck := map[int]uint64{}
			for _, r := range tr.Log {
				if r.K == "cons.ack.call" {
					if r.Seq <= lastAck[r.VB] {
						nt = true
					}
					if r.Seq > lastAck[r.VB] {
						lastAck[r.VB] = r.Seq
					}
				}
			}
			okReads := 0
			for _, rd := range tr.Reads {
				if rd.OK {
					okReads++
				}
			}
			sample := map[string]any{"kind": sc.Kind, "vbuckets": sp.NumVB, "acks": tr.count("cons.ack.call"), "tracker_notifications": tr.count("cons.track"), "api_reads": okReads,
				"linearizability_checks": lin, "rebalances": tr.count("eh.ARE")}
			if len(tr.Reads) > 0 {
				sample["last_read"] = tr.Reads[len(tr.Reads)-1].Seq
			}
			r := sessionResult("C04", tr, fs, nt && (sc.Kind == "range" || okReads > 0), sample)
			r.Checks = tr.count("cons.track") + okReads
			r.Events["api_reads"] = okReads
			r.Events["porcupine_histories"] = lin
			return r
		},
		OnDeath: func(sc drv.Scenario, out drv.ChildOutcome) drv.Result {
			return drv.Result{Verdict: drv.Inconclusive, Detail: "child died: " + drv.PanicLine(out.Stderr), Foreign: []string{"process death: " + drv.PanicLine(out.Stderr)}}
		},
	})
}
