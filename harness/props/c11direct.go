package props

import (
	"fmt"
	"sync"
	"time"

	"github.com/Trendyol/go-dcp/couchbase"
	"github.com/Trendyol/go-dcp/models"
	"github.com/Trendyol/go-dcp/stream"
	"github.com/Trendyol/go-dcp/tracing"
	"github.com/Trendyol/go-dcp/wrapper"
	"github.com/couchbase/gocbcore/v10"

	"verif/harness/drv"
	"verif/harness/evlog"
	"verif/harness/hx"
)

// M-direct assembly (DESIGN §2.2): the real stream / checkpoint / observer code around a real client
// whose stream operations are answered in memory. CloseStream delivers the stream end synchronously, the
// way gocbcore does when the end event is already queued - this makes the ordering of the two "stream
// finished" signals inside Close() controllable (GOMAXPROCS=1) instead of a rare race.

type directClient struct {
	couchbase.Client
	mu   sync.Mutex
	obs  map[uint16]couchbase.Observer
	log  *evlog.Log
	nvb  int
	sync bool // deliver the END inside CloseStream
}

func (w *directClient) OpenStream(vb uint16, _ map[uint32]string, o *models.Offset, ob couchbase.Observer) error {
	w.mu.Lock()
	w.obs[vb] = ob
	w.mu.Unlock()
	w.log.Add(evlog.Rec{K: "direct.open", VB: int(vb), Seq: o.SeqNo})
	ob.SetVbUUID(0x77)
	return nil
}

func (w *directClient) CloseStream(vb uint16) error {
	w.mu.Lock()
	ob := w.obs[vb]
	w.mu.Unlock()
	w.log.Add(evlog.Rec{K: "direct.close", VB: int(vb)})
	if ob != nil {
		ob.End(models.DcpStreamEnd{VbID: vb}, gocbcore.ErrDCPStreamClosed)
	}
	return nil
}

func (w *directClient) GetVBucketSeqNos(bool) (*wrapper.ConcurrentSwissMap[uint16, uint64], error) {
	m := wrapper.CreateConcurrentSwissMap[uint16, uint64](16)
	for i := 0; i < w.nvb; i++ {
		m.Store(uint16(i), 1000000)
	}
	return m, nil
}

func (w *directClient) GetFailOverLogs(uint16) ([]gocbcore.FailoverEntry, error) {
	return []gocbcore.FailoverEntry{{VbUUID: 0x77}}, nil
}

type directDiscovery struct{ ids []uint16 }

func (v *directDiscovery) Get() []uint16 { return v.ids }
func (v *directDiscovery) Close()        {}
func (v *directDiscovery) GetMetric() *stream.VBucketDiscoveryMetric {
	return &stream.VBucketDiscoveryMetric{}
}

type c11DirectParams struct {
	NumVB      int    `json:"num_vb"`
	Rebalances int    `json:"rebalances"`
	Membership string `json:"membership"`
	DelayMs    int    `json:"delay_ms"`
}

func c11RunDirect(sc drv.Scenario, p *c11DirectParams) drv.Result {
	env, err := hx.NewEnv(hx.EnvOpts{NumVB: p.NumVB})
	if err != nil {
		return drv.Result{Verdict: drv.Inconclusive, Detail: err.Error()}
	}
	defer env.Close()
	cfg := env.BaseConfig()
	cfg.Dcp.Group.Membership.Type = p.Membership
	cfg.Dcp.Group.Membership.RebalanceDelay = time.Duration(p.DelayMs) * time.Millisecond
	cfg.ApplyDefaults()
	real := couchbase.NewClient(cfg)
	if err := real.Connect(); err != nil {
		return drv.Result{Verdict: drv.Inconclusive, Detail: err.Error()}
	}
	defer real.Close()
	if err := real.DcpConnect(true, false); err != nil {
		return drv.Result{Verdict: drv.Inconclusive, Detail: err.Error()}
	}
	defer real.DcpClose()
	w := &directClient{Client: real, obs: map[uint16]couchbase.Observer{}, log: env.Log, nvb: p.NumVB}
	md := hx.NewMemMetadata(env.Log)
	cons := &hx.Consumer{Log: env.Log}
	eh := hx.NewEventHandler(env.Log)
	stop := make(chan struct{}, 1)
	ids := make([]uint16, p.NumVB)
	for i := range ids {
		ids[i] = uint16(i)
	}
	s := stream.NewStream(w, md, cfg, &couchbase.Version{Major: 7, Minor: 6}, &couchbase.BucketInfo{BucketType: "membase"}, &directDiscovery{ids: ids}, cons, map[uint32]string{}, stop, eh, tracing.NewTracerComponent())
	s.Open()
	stopped := func() bool {
		select {
		case <-stop:
			return true
		default:
			return false
		}
	}
	done := 0
	for r := 0; r < p.Rebalances && !stopped(); r++ {
		env.Log.Add(evlog.Rec{K: "ctl.notify.call", VB: -1, S: "direct", A: uint64(r + 1)})
		s.Rebalance()
		want := r + 1
		if !hx.WaitFor(5*time.Second, func() bool { return env.Log.Count("eh.ARE") >= want || stopped() }) {
			break
		}
		done++
		time.Sleep(2 * time.Millisecond)
	}
	time.Sleep(10 * time.Millisecond)
	res := drv.Result{Verdict: drv.Held, Checks: done, Nontrivial: done >= 2, TraceHash: drv.Hash("direct", fmt.Sprint(p.NumVB, p.Rebalances, p.Membership, sc.GoMaxProcs)),
		Events: map[string]int{"cycles": env.Log.Count("eh.ARE"), "notifications": p.Rebalances},
		Sample: map[string]any{"placement": "direct", "membership": p.Membership, "gomaxprocs": sc.GoMaxProcs, "rebalances_requested": p.Rebalances, "cycles_completed": env.Log.Count("eh.ARE"), "stop_channel_closed": stopped()}}
	if stopped() {
		res.Verdict, res.Clause, res.FindingKey = drv.Violated, "terminated", "C11/client-terminated"
		res.Detail = fmt.Sprintf("the stop channel was closed after %d of %d rebalances (membership %s, GOMAXPROCS %d): a rebalance terminated the client", env.Log.Count("eh.ARE"), p.Rebalances, p.Membership, sc.GoMaxProcs)
		return res
	}
	if done < p.Rebalances {
		res.Verdict, res.Clause, res.FindingKey = drv.Violated, "never-reopened", "C11/never-reopened"
		res.Detail = fmt.Sprintf("rebalance %d never completed its reopen", done+1)
		return res
	}
	s.Close(false)
	return res
}
