// vh: verification harness binary. "vh check <ID> <tier>" is the parent; "vh child" runs cases.
package main

import (
	"fmt"
	"os"

	"verif/harness/drv"
	_ "verif/harness/props"
)

func main() {
	if len(os.Args) < 2 {
		fmt.Fprintln(os.Stderr, "usage: vh check <ID> <quick|thorough> | vh child | vh replay <path>")
		os.Exit(2)
	}
	exe, _ := os.Executable()
	verif := os.Getenv("VERIF_DIR")
	if verif == "" {
		verif = "/verif"
	}
	switch os.Args[1] {
	case "child":
		drv.ChildMain()
	case "check":
		if len(os.Args) < 4 {
			os.Exit(2)
		}
		os.Exit(drv.CheckMain(os.Args[2], os.Args[3], exe, os.Getenv("VERIF_RACE_EXE"), verif))
	case "replay":
		os.Exit(drv.ReplayMain(os.Args[2], exe))
	default:
		os.Exit(2)
	}
}
