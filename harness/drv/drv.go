// Package drv is the check driver: the parent process generates the seed-determined case list,
// runs the cases in child processes (the library fail-stops by panicking, which no in-process
// monitor survives), collects three-valued verdicts, writes the evidence file and prints
// VIOLATION / KNOWN-FINDING lines.
package drv

import (
	"bufio"
	"bytes"
	"crypto/sha1"
	"encoding/hex"
	"encoding/json"
	"fmt"
	"io"
	"os"
	"os/exec"
	"path/filepath"
	"sort"
	"strconv"
	"strings"
	"sync"
	"syscall"
	"time"
)

const (
	Held         = "held"
	Violated     = "violated"
	Inconclusive = "inconclusive"
)

// Scenario is one case. Params is property specific.
type Scenario struct {
	ID         string          `json:"id"`
	Prop       string          `json:"prop"`
	Kind       string          `json:"kind"`
	Seed       int64           `json:"seed"`
	Params     json.RawMessage `json:"params,omitempty"`
	Solo       bool            `json:"solo,omitempty"`       // own child process
	TimeoutS   int             `json:"timeout_s,omitempty"`  // wall-clock watchdog for the child running it
	GoMaxProcs int             `json:"gomaxprocs,omitempty"` // 0 = default
	Race       bool            `json:"race,omitempty"`       // run in the race-instrumented build
	Env        []string        `json:"env,omitempty"`        // extra environment for a solo child
}

// Result is the verdict of one case.
type Result struct {
	ID         string         `json:"id"`
	Verdict    string         `json:"verdict"`
	Clause     string         `json:"clause,omitempty"`      // violated clause (short id)
	FindingKey string         `json:"finding_key,omitempty"` // clause + minimal witness shape
	Detail     string         `json:"detail,omitempty"`
	Witness    any            `json:"witness,omitempty"`
	Nontrivial bool           `json:"nontrivial,omitempty"`
	TraceHash  string         `json:"trace_hash,omitempty"`
	Events     map[string]int `json:"events,omitempty"`
	Sample     any            `json:"sample,omitempty"`
	Foreign    []string       `json:"foreign,omitempty"` // anomalies not owned by this property
	Checks     int            `json:"checks,omitempty"`  // number of oracle evaluations inside the case
	// SubDistinct: number of distinct non-trivial sub-cases inside this case, for cases that are blocks
	// of an enumeration (blocks are disjoint by construction, so the parent may add them up).
	SubDistinct int `json:"sub_distinct,omitempty"`
	SubEvals    int `json:"sub_evals,omitempty"` // number of enumerated sub-cases executed inside this case
}

// ChildOutcome is what the parent knows about a child that died or was killed while running a case.
type ChildOutcome struct {
	ExitCode int
	Signal   string
	TimedOut bool
	Stderr   string   // tail
	Notes    []string // NOTE lines the child printed for the current scenario before dying
}

type Prop struct {
	ID          string
	Level       string // exploration | fault_enumeration
	Rule        string
	Assumptions []string
	// Gen returns the case list for (seed, tier); deterministic in its arguments.
	Gen func(seed int64, tier string) []Scenario
	// Run executes one case in the child.
	Run func(sc Scenario) Result
	// OnDeath judges a case whose child died (panic, fatal error, watchdog).
	OnDeath func(sc Scenario, out ChildOutcome) Result
	// MinConclusive: fewer conclusive cases than this is an infrastructure failure (exit 2).
	MinConclusive int
	// Parallel children (default 8).
	Parallel int
	// Batch size for non-solo scenarios (default 16).
	Batch      int
	Exhaustive bool
}

var Registry = map[string]*Prop{}

func Register(p *Prop) { Registry[p.ID] = p }

// Note prints an observation of the running case to the parent (survives a later process death).
func Note(format string, a ...any) {
	noteMu.Lock()
	defer noteMu.Unlock()
	fmt.Fprintf(childOut, "NOTE %s\n", strings.ReplaceAll(fmt.Sprintf(format, a...), "\n", " "))
	if f, ok := childOut.(*bufio.Writer); ok {
		f.Flush()
	}
}

// NoteFlush is Note (kept as a separate name at call sites where surviving a crash matters).
func NoteFlush(format string, a ...any) { Note(format, a...) }

var noteMu sync.Mutex
var childOut io.Writer = os.Stdout

func Hash(parts ...string) string {
	h := sha1.Sum([]byte(strings.Join(parts, "\x00")))
	return hex.EncodeToString(h[:8])
}

// ---------------------------------------------------------------------------------------------
// child

// ChildMain reads scenarios (one JSON per line) from stdin and writes BEGIN/RESULT lines.
func ChildMain() {
	out := bufio.NewWriter(os.Stdout)
	childOut = out
	sc := bufio.NewScanner(os.Stdin)
	sc.Buffer(make([]byte, 1<<20), 64<<20)
	for sc.Scan() {
		line := sc.Bytes()
		if len(bytes.TrimSpace(line)) == 0 {
			continue
		}
		var s Scenario
		if err := json.Unmarshal(line, &s); err != nil {
			fmt.Fprintf(os.Stderr, "bad scenario: %v\n", err)
			os.Exit(3)
		}
		p := Registry[s.Prop]
		if p == nil {
			fmt.Fprintf(os.Stderr, "unknown property %q\n", s.Prop)
			os.Exit(3)
		}
		noteMu.Lock()
		fmt.Fprintf(out, "BEGIN %s\n", s.ID)
		out.Flush()
		noteMu.Unlock()
		res := runWithWatchdog(p, s, out)
		res.ID = s.ID
		b, _ := json.Marshal(res)
		noteMu.Lock()
		fmt.Fprintf(out, "RESULT %s\n", b)
		out.Flush()
		noteMu.Unlock()
	}
}

func runWithWatchdog(p *Prop, s Scenario, out *bufio.Writer) Result {
	done := make(chan Result, 1)
	go func() {
		defer func() {
			// a panic on the harness goroutine itself (not a library goroutine) is a harness bug or a
			// library panic surfacing through a direct call; report it as a process death.
			if r := recover(); r != nil {
				out.Flush()
				fmt.Fprintf(os.Stderr, "panic: %v [recovered-by-harness]\n%s\n", r, stack())
				os.Stdout.Sync()
				os.Exit(2)
			}
		}()
		done <- p.Run(s)
	}()
	to := s.TimeoutS
	if to == 0 {
		to = 120
	}
	select {
	case r := <-done:
		return r
	case <-time.After(time.Duration(to) * time.Second):
		out.Flush()
		fmt.Fprintf(os.Stderr, "WATCHDOG scenario %s exceeded %ds\n%s\n", s.ID, to, stack())
		os.Exit(4)
	}
	return Result{}
}

func stack() string {
	buf := make([]byte, 4<<20)
	n := runtimeStack(buf)
	return string(buf[:n])
}

// ---------------------------------------------------------------------------------------------
// parent

type runCfg struct {
	exe, raceExe string
	prop         *Prop
	tier         string
	seed         int64
	workDir      string
}

type childJob struct {
	scs  []Scenario
	race bool
}

func runChild(rc *runCfg, job childJob) []Result {
	exe := rc.exe
	if job.race && rc.raceExe != "" {
		exe = rc.raceExe
	}
	var results []Result
	pending := job.scs
	for len(pending) > 0 {
		var in bytes.Buffer
		maxTO := 0
		for _, s := range pending {
			b, _ := json.Marshal(s)
			in.Write(b)
			in.WriteByte('\n')
			to := s.TimeoutS
			if to == 0 {
				to = 120
			}
			maxTO += to
		}
		cmd := exec.Command(exe, "child")
		cmd.Stdin = &in
		var stdout bytes.Buffer
		cmd.Stdout = &stdout
		errFile, _ := os.CreateTemp(rc.workDir, "child-stderr-*")
		cmd.Stderr = errFile
		cmd.Env = append(os.Environ(), "GOTRACEBACK=all")
		gmp := pending[0].GoMaxProcs
		if gmp > 0 {
			cmd.Env = append(cmd.Env, "GOMAXPROCS="+strconv.Itoa(gmp))
		}
		cmd.Env = append(cmd.Env, pending[0].Env...)
		if job.race {
			cmd.Env = append(cmd.Env, "GORACE=halt_on_error=0 log_path="+filepath.Join(rc.workDir, "race"))
		}
		cmd.SysProcAttr = &syscall.SysProcAttr{Setpgid: true}
		timedOut := false
		if err := cmd.Start(); err != nil {
			for _, s := range pending {
				results = append(results, Result{ID: s.ID, Verdict: Inconclusive, Detail: "cannot start child: " + err.Error()})
			}
			return results
		}
		timer := time.AfterFunc(time.Duration(maxTO+30)*time.Second, func() {
			timedOut = true
			syscall.Kill(-cmd.Process.Pid, syscall.SIGKILL)
		})
		werr := cmd.Wait()
		timer.Stop()
		errFile.Close()
		stderrB, _ := os.ReadFile(errFile.Name())
		os.Remove(errFile.Name())
		// parse stdout
		done := map[string]bool{}
		current := ""
		var notes []string
		for _, ln := range strings.Split(stdout.String(), "\n") {
			switch {
			case strings.HasPrefix(ln, "BEGIN "):
				current = strings.TrimPrefix(ln, "BEGIN ")
				notes = nil
			case strings.HasPrefix(ln, "NOTE "):
				notes = append(notes, strings.TrimPrefix(ln, "NOTE "))
			case strings.HasPrefix(ln, "RESULT "):
				var r Result
				if json.Unmarshal([]byte(strings.TrimPrefix(ln, "RESULT ")), &r) == nil {
					results = append(results, r)
					done[r.ID] = true
					current = ""
				}
			}
		}
		if werr == nil && current == "" {
			// all done
			var rest []Scenario
			for _, s := range pending {
				if !done[s.ID] {
					rest = append(rest, s)
				}
			}
			if len(rest) == len(pending) {
				for _, s := range rest {
					results = append(results, Result{ID: s.ID, Verdict: Inconclusive, Detail: "child produced no result"})
				}
				return results
			}
			pending = rest
			continue
		}
		// child died during scenario `current`
		out := ChildOutcome{Stderr: tail(string(stderrB), 6000), TimedOut: timedOut, Notes: notes}
		if ee, ok := werr.(*exec.ExitError); ok {
			out.ExitCode = ee.ExitCode()
			if ws, ok := ee.Sys().(syscall.WaitStatus); ok && ws.Signaled() {
				out.Signal = ws.Signal().String()
			}
		}
		if out.ExitCode == 4 {
			out.TimedOut = true
		}
		var rest []Scenario
		var dead *Scenario
		for i := range pending {
			s := pending[i]
			if done[s.ID] {
				continue
			}
			if s.ID == current {
				dead = &pending[i]
				continue
			}
			rest = append(rest, s)
		}
		if dead != nil {
			var r Result
			if rc.prop.OnDeath != nil {
				r = rc.prop.OnDeath(*dead, out)
			} else {
				r = Result{Verdict: Inconclusive, Detail: "child died: " + firstPanicLine(out.Stderr)}
			}
			r.ID = dead.ID
			results = append(results, r)
		} else if len(rest) == len(pending) {
			for _, s := range rest {
				results = append(results, Result{ID: s.ID, Verdict: Inconclusive, Detail: "child died outside any scenario: " + firstPanicLine(out.Stderr)})
			}
			return results
		}
		pending = rest
	}
	return results
}

func tail(s string, n int) string {
	if len(s) <= n {
		return s
	}
	// keep the head (panic message) and the tail
	return s[:n/2] + "\n...\n" + s[len(s)-n/2:]
}

func firstPanicLine(s string) string {
	for _, ln := range strings.Split(s, "\n") {
		if strings.HasPrefix(ln, "panic:") || strings.HasPrefix(ln, "fatal error:") || strings.HasPrefix(ln, "WATCHDOG") {
			return ln
		}
	}
	if len(s) > 200 {
		return s[:200]
	}
	return s
}

// PanicLine is exported for OnDeath implementations.
func PanicLine(s string) string { return firstPanicLine(s) }

// IsLibraryPanic reports whether stderr shows a Go panic / fatal error (as opposed to the watchdog).
func IsLibraryPanic(stderr string) bool {
	if strings.Contains(stderr, "[recovered-by-harness]") {
		// a panic on the harness's own goroutine: it is the library's only if the panicking frame (the first one
		// below runtime.panic) belongs to the library; otherwise it is a bug of the harness (never a verdict)
		if i := strings.Index(stderr, "\npanic("); i >= 0 {
			rest := stderr[i+1:]
			lines := strings.Split(rest, "\n")
			for k := 1; k < len(lines); k++ {
				l := strings.TrimSpace(lines[k])
				if l == "" || strings.HasPrefix(l, "/") || strings.HasPrefix(l, "runtime.") || strings.HasPrefix(l, "panic(") {
					continue
				}
				return !strings.HasPrefix(l, "verif/harness/")
			}
		}
		return false
	}
	return strings.Contains(stderr, "\npanic:") || strings.HasPrefix(stderr, "panic:") ||
		strings.Contains(stderr, "fatal error:")
}

type KnownFinding struct {
	Property string `json:"property"`
	Key      string `json:"key"`
	What     string `json:"what"`
	Status   string `json:"status"` // "known" | "fixed"
	Commit   string `json:"commit,omitempty"`
}

func loadKnown(verifDir string) []KnownFinding {
	b, err := os.ReadFile(filepath.Join(verifDir, "known_findings.json"))
	if err != nil {
		return nil
	}
	var f struct {
		Findings []KnownFinding `json:"findings"`
	}
	_ = json.Unmarshal(b, &f)
	return f.Findings
}

// CheckMain runs a whole check and returns the process exit code.
func CheckMain(propID, tier string, exe, raceExe, verifDir string) int {
	p := Registry[propID]
	if p == nil {
		fmt.Fprintf(os.Stderr, "unknown property %s\n", propID)
		return 2
	}
	seed := int64(1)
	if v := os.Getenv("VERIF_SEED"); v != "" {
		if n, err := strconv.ParseInt(v, 10, 64); err == nil {
			seed = n
		}
	}
	t0 := time.Now()
	work, err := os.MkdirTemp("", "verif-"+propID+"-")
	if err != nil {
		fmt.Fprintln(os.Stderr, err)
		return 2
	}
	defer os.RemoveAll(work)
	rc := &runCfg{exe: exe, raceExe: raceExe, prop: p, tier: tier, seed: seed, workDir: work}
	scs := p.Gen(seed, tier)
	for i := range scs {
		scs[i].Prop = p.ID
		if scs[i].ID == "" {
			scs[i].ID = fmt.Sprintf("%s-%s-%d-%04d", p.ID, scs[i].Kind, seed, i)
		}
	}
	if only := os.Getenv("VERIF_ONLY"); only != "" {
		var f []Scenario
		for _, s := range scs {
			if strings.Contains(s.ID, only) || s.Kind == only {
				f = append(f, s)
			}
		}
		scs = f
	}
	if d := os.Getenv("VERIF_SAVE_SCEN"); d != "" { // debugging aid: replayable files for every generated scenario
		os.MkdirAll(d, 0o755)
		for _, s := range scs {
			b, _ := json.MarshalIndent(map[string]any{"property": p.ID, "tier": tier, "seed": seed, "scenario": s}, "", " ")
			os.WriteFile(filepath.Join(d, s.ID+".json"), b, 0o644)
		}
	}
	// jobs
	batch := p.Batch
	if batch == 0 {
		batch = 16
	}
	var jobs []childJob
	groups := map[string][]Scenario{}
	var order []string
	for _, s := range scs {
		if s.Solo {
			jobs = append(jobs, childJob{scs: []Scenario{s}, race: s.Race})
			continue
		}
		k := fmt.Sprintf("%v/%d", s.Race, s.GoMaxProcs)
		if _, ok := groups[k]; !ok {
			order = append(order, k)
		}
		groups[k] = append(groups[k], s)
	}
	for _, k := range order {
		g := groups[k]
		for i := 0; i < len(g); i += batch {
			j := i + batch
			if j > len(g) {
				j = len(g)
			}
			jobs = append(jobs, childJob{scs: g[i:j], race: g[i].Race})
		}
	}
	par := p.Parallel
	if par == 0 {
		par = 8
	}
	if v := os.Getenv("VERIF_PAR"); v != "" {
		if n, err := strconv.Atoi(v); err == nil && n > 0 {
			par = n
		}
	}
	var mu sync.Mutex
	resByID := map[string]Result{}
	sem := make(chan struct{}, par)
	var wg sync.WaitGroup
	for _, j := range jobs {
		wg.Add(1)
		sem <- struct{}{}
		go func(j childJob) {
			defer wg.Done()
			defer func() { <-sem }()
			rs := runChild(rc, j)
			// retry inconclusive ones alone, up to 2 more times
			for attempt := 0; attempt < 2; attempt++ {
				var again []Scenario
				for _, r := range rs {
					if r.Verdict == Inconclusive {
						for _, s := range j.scs {
							if s.ID == r.ID {
								again = append(again, s)
							}
						}
					}
				}
				if len(again) == 0 {
					break
				}
				keep := rs[:0]
				for _, r := range rs {
					if r.Verdict != Inconclusive {
						keep = append(keep, r)
					}
				}
				rs = keep
				for _, s := range again {
					rs = append(rs, runChild(rc, childJob{scs: []Scenario{s}, race: j.race})...)
				}
			}
			mu.Lock()
			for _, r := range rs {
				resByID[r.ID] = r
			}
			mu.Unlock()
		}(j)
	}
	wg.Wait()

	// aggregate
	known := loadKnown(verifDir)
	var held, inconc int
	var violations []Result
	distinct := map[string]bool{}
	events := map[string]int{}
	var samples []any
	var foreign []string
	checks := 0
	subDistinct := 0
	subEvals := 0
	byKind := map[string]int{}
	for _, s := range scs {
		r, ok := resByID[s.ID]
		if !ok {
			r = Result{ID: s.ID, Verdict: Inconclusive, Detail: "no result"}
		}
		byKind[s.Kind]++
		if r.SubEvals > 1 {
			subEvals += r.SubEvals - 1
		}
		checks += r.Checks
		for k, v := range r.Events {
			events[k] += v
		}
		foreign = append(foreign, r.Foreign...)
		switch r.Verdict {
		case Held:
			held++
		case Violated:
			violations = append(violations, r)
		default:
			inconc++
			if len(foreign) < 40 {
				foreign = append(foreign, "inconclusive "+s.ID+": "+r.Detail)
			}
		}
		if r.Verdict != Inconclusive && r.Nontrivial && r.TraceHash != "" && !distinct[r.TraceHash] {
			distinct[r.TraceHash] = true
			if r.SubDistinct > 1 {
				subDistinct += r.SubDistinct - 1
			}
		}
		if r.Sample != nil && len(samples) < 5 && (len(samples) == 0 || byKind[s.Kind] == 1) {
			samples = append(samples, map[string]any{"id": s.ID, "kind": s.Kind, "verdict": r.Verdict, "case": r.Sample})
		}
	}
	exit := 0
	knownHit := map[string]bool{}
	unlisted := 0
	outDir := verifDir
	if v := os.Getenv("VERIF_OUT"); v != "" {
		outDir = v // mutation tests write their evidence / violation files elsewhere
	}
	violDir := filepath.Join(outDir, "violations")
	for _, v := range violations {
		matched := false
		for _, k := range known {
			if k.Status == "known" && k.Property == p.ID && k.Key == v.FindingKey {
				matched = true
				if !knownHit[k.Key] {
					knownHit[k.Key] = true
					fmt.Printf("KNOWN-FINDING: property=%s %s [%s]\n", p.ID, k.What, k.Key)
				}
			}
		}
		if matched {
			continue
		}
		unlisted++
		if unlisted > 6 {
			exit = 1
			continue
		}
		os.MkdirAll(violDir, 0o755)
		var sc Scenario
		for _, s := range scs {
			if s.ID == v.ID {
				sc = s
			}
		}
		path := filepath.Join(violDir, v.ID+".json")
		b, _ := json.MarshalIndent(map[string]any{"property": p.ID, "tier": tier, "seed": seed, "scenario": sc, "result": v}, "", " ")
		os.WriteFile(path, b, 0o644)
		exit = 1
		if unlisted > 6 {
			continue
		}
		fmt.Printf("VIOLATION property=%s replay=%s\n", p.ID, path)
		fmt.Printf("  clause=%s key=%s %s\n", v.Clause, v.FindingKey, v.Detail)
	}
	conclusive := held + len(violations)
	minC := p.MinConclusive
	if minC == 0 {
		minC = 1
	}
	if os.Getenv("VERIF_ONLY") != "" {
		minC = 0
	}
	nd := len(distinct) + subDistinct
	// evidence
	ev := map[string]any{
		"property_id": p.ID, "tier": tier, "seed": seed, "level": p.Level,
		"coverage": map[string]any{
			"evaluations":                        len(scs) + subEvals,
			"cases":                              len(scs),
			"distinct_nontrivial":                nd,
			"rule":                               p.Rule,
			"samples":                            samples,
			"exhaustive":                         p.Exhaustive,
			"held":                               held,
			"violated":                           len(violations),
			"violations_matching_known_findings": len(violations) - unlisted,
			"inconclusive":                       inconc,
			"oracle_evaluations":                 checks,
			"events_observed":                    events,
			"cases_by_kind":                      byKind,
			"foreign_observations":               capList(foreign, 30),
		},
		"assumptions": p.Assumptions,
		"wall_s":      time.Since(t0).Seconds(),
		"violations":  unlisted,
	}
	os.MkdirAll(filepath.Join(outDir, "evidence"), 0o755)
	b, _ := json.MarshalIndent(ev, "", " ")
	os.WriteFile(filepath.Join(outDir, "evidence", p.ID+".json"), b, 0o644)
	kinds := make([]string, 0, len(byKind))
	for k, v := range byKind {
		kinds = append(kinds, fmt.Sprintf("%s=%d", k, v))
	}
	sort.Strings(kinds)
	fmt.Printf("%s %s seed=%d: cases=%d held=%d violated=%d (unlisted %d) inconclusive=%d distinct_nontrivial=%d oracle_evals=%d wall=%.1fs [%s]\n",
		p.ID, tier, seed, len(scs), held, len(violations), unlisted, inconc, nd, checks, time.Since(t0).Seconds(), strings.Join(kinds, " "))
	if exit == 0 && (conclusive < minC || (nd < 2 && os.Getenv("VERIF_ONLY") == "")) {
		fmt.Printf("INFRA: too few conclusive cases (%d < %d) or too few distinct non-trivial cases (%d)\n", conclusive, minC, nd)
		for i, f := range foreign {
			if i < 10 {
				fmt.Println("  ", f)
			}
		}
		return 2
	}
	return exit
}

func capList(l []string, n int) []string {
	if len(l) > n {
		return l[:n]
	}
	if l == nil {
		return []string{}
	}
	return l
}

// ReplayMain re-runs the scenario stored in a violation file.
func ReplayMain(path, exe string) int {
	b, err := os.ReadFile(path)
	if err != nil {
		fmt.Fprintln(os.Stderr, err)
		return 2
	}
	var v struct {
		Property string   `json:"property"`
		Scenario Scenario `json:"scenario"`
	}
	if err := json.Unmarshal(b, &v); err != nil {
		fmt.Fprintln(os.Stderr, err)
		return 2
	}
	p := Registry[v.Property]
	if p == nil {
		return 2
	}
	work, _ := os.MkdirTemp("", "verif-replay-")
	defer os.RemoveAll(work)
	rc := &runCfg{exe: exe, prop: p, workDir: work}
	n := 5
	viol := 0
	for i := 0; i < n; i++ {
		rs := runChild(rc, childJob{scs: []Scenario{v.Scenario}})
		for _, r := range rs {
			fmt.Printf("replay %d: %s clause=%s %s\n", i+1, r.Verdict, r.Clause, r.Detail)
			if r.Verdict == Violated {
				viol++
			}
		}
	}
	if viol > 0 {
		fmt.Printf("VIOLATION property=%s replay=%s\n", v.Property, path)
		return 1
	}
	return 0
}
