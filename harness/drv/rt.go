package drv

import "runtime"

func runtimeStack(buf []byte) int { return runtime.Stack(buf, true) }
