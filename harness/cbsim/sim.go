// Package cbsim is a simulated Couchbase cluster: just enough of the mgmt-HTTP and memcached
// binary protocol for the unmodified gocbcore agents inside go-dcp to bootstrap and operate.
// It is a test double for the third-party server, not a model of go-dcp.
package cbsim

import (
	"bufio"
	"encoding/binary"
	"encoding/json"
	"fmt"
	"math/rand"
	"net"
	"net/http"
	"strings"
	"sync"
	"sync/atomic"
	"time"

	"verif/harness/evlog"
)

// Item kinds.
const (
	KMutation   = 'm'
	KDeletion   = 'd'
	KExpiration = 'e'
	KSystem     = 's' // collection-created system event
	KSeqnoAdv   = 'a'
)

type Item struct {
	Kind     byte
	Key      []byte
	Value    []byte
	SeqNo    uint64
	RevNo    uint64
	Cas      uint64
	Flags    uint32
	Expiry   uint32
	Cid      uint32
	Datatype byte
	SnapS    uint64 // snapshot this item was produced in
	SnapE    uint64
	SysEvent uint32 // for KSystem: 0 create coll,1 delete coll,2 flush,3 create scope,4 drop scope,5 modified
}

type Failover struct{ UUID, Seq uint64 }

type ObsState struct {
	UUID    uint64
	Persist uint64
	Set     bool
}

type VB struct {
	mu       sync.Mutex
	Items    []Item
	High     uint64
	Failover []Failover        // newest first
	Obs      map[int]*ObsState // replica index -> scripted observe state (default: Failover[0].UUID, High)
	CollHigh map[uint32]uint64 // scripted per-collection high seqno (collection-aware GET_ALL_VB_SEQNOS)
	streams  []*dcpStream
}

type dcpStream struct {
	mu      sync.Mutex
	c       *conn
	vb      uint16
	opaque  uint32
	last    uint64
	end     uint64
	closed  bool
	lastSnS uint64
	lastSnE uint64
	haveSn  bool
}

type Doc struct {
	Value  []byte
	Xattrs map[string]json.RawMessage
	Cas    uint64
	Flags  uint32
	Expire time.Time // zero = never
}

// Req is what a Hook sees for every KV request after it has been read completely.
type Req struct {
	Node    int
	ConnID  int
	Conn    string // connection name from HELLO
	IsDCP   bool
	Op      byte
	VB      uint16
	Key     []byte // collection prefix stripped
	Cid     uint32
	Extras  []byte
	Val     []byte
	Opaque  uint32
	Cas     uint64
	Replica int // for OBSERVE_SEQNO: replica index this node holds for VB (-1 unknown)
	T       int64
}

// Action tells the node how to answer instead of (or before) its default behaviour.
type Action struct {
	HasStatus bool
	Status    uint16
	Value     []byte
	Delay     time.Duration // reply (default or overridden) after Delay, asynchronously
	NoReply   bool          // swallow the request
	Drop      bool          // close the connection instead of replying
	Hold      chan struct{} // wait on this channel before replying
	Async     bool          // Delay/Hold do not block later requests of the same connection (out-of-order reply); default: in order, as memcached executes a connection's commands
	After     func()        // run after the reply has been queued
}

type Cluster struct {
	mu                 sync.Mutex
	Bucket             string
	UUID               string
	NumVB              int
	VBs                []*VB
	VBMap              [][]int // vb -> [active node, replica1 node, ...]; -1 unassigned
	NumRepl            int
	Rev                int
	RevEpoch           int
	Version            string
	BucketType         string
	Storage            string
	Docs               map[string]*Doc
	Loopback           bool          // document writes are appended to the vbucket history and streamed back
	LoopbackReplyDelay time.Duration // the write's DCP event is pushed first, its reply follows after this delay
	Collections        map[string]uint32
	Snappy             bool
	Fragment           bool // fragment TCP writes randomly
	StrictUUID         bool
	DiskMarkers        bool // snapshot markers announce on-disk (backfill) snapshots instead of memory snapshots
	NoSelectBucket     bool

	Hook     func(*Req) *Action
	HTTPHook func(path string) (status int, body []byte, handled bool, hang bool)

	Log *evlog.Log

	nodes       []*node
	casCtr      uint64
	connCtr     int32
	cfgSubs     map[chan []byte]struct{}
	closed      bool
	conns       map[*conn]struct{}
	rng         *rand.Rand
	DcpControls []string // key=value seen
	Hellos      []string
}

type node struct {
	cl    *Cluster
	idx   int
	kvL   net.Listener
	httpL net.Listener
	KV    int
	HTTP  int
}

type Options struct {
	Bucket   string
	NumVB    int
	Nodes    int
	Replicas int
	Log      *evlog.Log
	Seed     int64
}

func Start(o Options) (*Cluster, error) {
	if o.Bucket == "" {
		o.Bucket = "b1"
	}
	if o.NumVB == 0 {
		o.NumVB = 4
	}
	if o.Nodes == 0 {
		o.Nodes = 1
	}
	cl := &Cluster{Bucket: o.Bucket, UUID: "ae4c45a9818aee3bd83bf65d10c99d9d", NumVB: o.NumVB, NumRepl: o.Replicas,
		Rev: 10, RevEpoch: 1, Version: "7.6.3-4200-enterprise", BucketType: "membase", Storage: "couchstore",
		Docs: map[string]*Doc{}, Collections: map[string]uint32{"_default._default": 0}, Log: o.Log,
		cfgSubs: map[chan []byte]struct{}{}, conns: map[*conn]struct{}{}, rng: rand.New(rand.NewSource(o.Seed + 7))}
	for i := 0; i < o.NumVB; i++ {
		cl.VBs = append(cl.VBs, &VB{Failover: []Failover{{UUID: 0xabc000 + uint64(i), Seq: 0}}, Obs: map[int]*ObsState{}})
		row := []int{i % o.Nodes}
		for r := 1; r <= o.Replicas; r++ {
			if o.Nodes > r {
				row = append(row, (i+r)%o.Nodes)
			} else {
				row = append(row, -1)
			}
		}
		cl.VBMap = append(cl.VBMap, row)
	}
	for i := 0; i < o.Nodes; i++ {
		n := &node{cl: cl, idx: i}
		var err error
		if n.kvL, err = net.Listen("tcp", "127.0.0.1:0"); err != nil {
			return nil, err
		}
		if n.httpL, err = net.Listen("tcp", "127.0.0.1:0"); err != nil {
			return nil, err
		}
		n.KV = n.kvL.Addr().(*net.TCPAddr).Port
		n.HTTP = n.httpL.Addr().(*net.TCPAddr).Port
		cl.nodes = append(cl.nodes, n)
	}
	for _, n := range cl.nodes {
		go n.serveKV()
		go n.serveHTTP()
	}
	return cl, nil
}

// Hosts returns the value for config.Dcp.Hosts.
func (cl *Cluster) Hosts() []string {
	return []string{fmt.Sprintf("http://127.0.0.1:%d", cl.nodes[0].HTTP)}
}

func (cl *Cluster) HTTPPort(i int) int { return cl.nodes[i].HTTP }
func (cl *Cluster) KVPort(i int) int   { return cl.nodes[i].KV }
func (cl *Cluster) NumNodes() int      { return len(cl.nodes) }

func (cl *Cluster) Close() {
	cl.mu.Lock()
	cl.closed = true
	conns := make([]*conn, 0, len(cl.conns))
	for c := range cl.conns {
		conns = append(conns, c)
	}
	cl.mu.Unlock()
	for _, n := range cl.nodes {
		n.kvL.Close()
		n.httpL.Close()
	}
	for _, c := range conns {
		c.c.Close()
	}
}

func (cl *Cluster) logAdd(r evlog.Rec) int64 { return cl.Log.Add(r) }

func (cl *Cluster) configJSON() []byte {
	cl.mu.Lock()
	defer cl.mu.Unlock()
	var serverList []string
	var nodesExt, nodesArr []any
	for i, n := range cl.nodes {
		serverList = append(serverList, fmt.Sprintf("127.0.0.1:%d", n.KV))
		ne := map[string]any{"services": map[string]int{"kv": n.KV, "mgmt": n.HTTP}, "hostname": "127.0.0.1"}
		if i == 0 {
			ne["thisNode"] = true
		}
		nodesExt = append(nodesExt, ne)
		nodesArr = append(nodesArr, map[string]any{"hostname": fmt.Sprintf("127.0.0.1:%d", n.HTTP), "ports": map[string]int{"direct": n.KV}})
	}
	vbmap := make([][]int, len(cl.VBMap))
	for i := range cl.VBMap {
		vbmap[i] = append([]int{}, cl.VBMap[i]...)
	}
	cfg := map[string]any{
		"rev": cl.Rev, "revEpoch": cl.RevEpoch, "name": cl.Bucket, "nodeLocator": "vbucket", "uuid": cl.UUID,
		"uri":                    "/pools/default/buckets/" + cl.Bucket + "?bucket_uuid=" + cl.UUID,
		"streamingUri":           "/pools/default/bucketsStreaming/" + cl.Bucket + "?bucket_uuid=" + cl.UUID,
		"bucketCapabilitiesVer":  "",
		"bucketCapabilities":     []string{"collections", "durableWrite", "couchapi", "dcp", "cbhello", "touch", "cccp", "nodesExt", "xattr"},
		"collectionsManifestUid": "1",
		"vBucketServerMap": map[string]any{
			"hashAlgorithm": "CRC", "numReplicas": cl.NumRepl,
			"serverList": serverList,
			"vBucketMap": vbmap,
		},
		"nodes":                  nodesArr,
		"nodesExt":               nodesExt,
		"clusterCapabilitiesVer": []int{1, 0},
		"clusterCapabilities":    map[string][]string{},
	}
	b, _ := json.Marshal(cfg)
	return b
}

// BumpConfig applies f to the cluster map under the lock, bumps the revision and pushes the new
// config to the streaming HTTP subscribers (CCCP pollers pick it up on their next poll).
func (cl *Cluster) BumpConfig(f func()) {
	cl.mu.Lock()
	if f != nil {
		f()
	}
	cl.Rev++
	subs := make([]chan []byte, 0, len(cl.cfgSubs))
	for ch := range cl.cfgSubs {
		subs = append(subs, ch)
	}
	cl.mu.Unlock()
	b := cl.configJSON()
	for _, ch := range subs {
		select {
		case ch <- b:
		default:
		}
	}
	cl.logAdd(evlog.Rec{K: "sim.cfgbump", VB: -1, A: uint64(cl.Rev)})
}

func (n *node) serveHTTP() {
	cl := n.cl
	mux := http.NewServeMux()
	mux.HandleFunc("/", func(w http.ResponseWriter, r *http.Request) {
		p := r.URL.Path
		cl.logAdd(evlog.Rec{K: "sim.http", N: n.idx, VB: -1, S: r.Method + " " + p})
		if h := cl.HTTPHook; h != nil {
			if st, body, handled, hang := h(p); handled {
				if hang {
					<-r.Context().Done()
					return
				}
				w.WriteHeader(st)
				w.Write(body)
				return
			}
		}
		switch {
		case strings.HasPrefix(p, "/pools/default/bs/"), strings.HasPrefix(p, "/pools/default/bucketsStreaming/"):
			w.Header().Set("Content-Type", "application/json")
			w.WriteHeader(200)
			ch := make(chan []byte, 4)
			cl.mu.Lock()
			cl.cfgSubs[ch] = struct{}{}
			cl.mu.Unlock()
			defer func() { cl.mu.Lock(); delete(cl.cfgSubs, ch); cl.mu.Unlock() }()
			w.Write(cl.configJSON())
			w.Write([]byte("\n\n\n\n"))
			if f, ok := w.(http.Flusher); ok {
				f.Flush()
			}
			for {
				select {
				case <-r.Context().Done():
					return
				case b := <-ch:
					w.Write(b)
					w.Write([]byte("\n\n\n\n"))
					if f, ok := w.(http.Flusher); ok {
						f.Flush()
					}
				}
			}
		case strings.HasPrefix(p, "/pools/default/b/"):
			w.Write(cl.configJSON())
		case p == "/pools/default/buckets/"+cl.Bucket:
			cl.mu.Lock()
			b := `{"bucketType":"` + cl.BucketType + `","storageBackend":"` + cl.Storage + `","name":"` + cl.Bucket + `"}`
			cl.mu.Unlock()
			w.Write([]byte(b))
		case p == "/pools":
			cl.mu.Lock()
			vb, _ := json.Marshal(cl.Version)
			cl.mu.Unlock()
			w.Write([]byte(`{"implementationVersion":` + string(vb) + `,"isEnterprise":true}`))
		default:
			w.Write([]byte(`{}`))
		}
	})
	srv := &http.Server{Handler: mux}
	_ = srv.Serve(n.httpL)
}

type conn struct {
	n       *node
	id      int
	c       net.Conn
	collect bool
	isDCP   bool
	name    string
	qmu     sync.Mutex
	qcond   *sync.Cond
	queue   [][]byte
	qclosed bool
}

func (c *conn) writer() {
	w := bufio.NewWriter(c.c)
	for {
		c.qmu.Lock()
		for len(c.queue) == 0 && !c.qclosed {
			c.qcond.Wait()
		}
		if c.qclosed && len(c.queue) == 0 {
			c.qmu.Unlock()
			return
		}
		batch := c.queue
		c.queue = nil
		c.qmu.Unlock()
		for _, b := range batch {
			if c.n.cl.Fragment {
				for len(b) > 0 {
					k := 1 + c.n.cl.rngIntn(48)
					if k > len(b) {
						k = len(b)
					}
					if _, err := c.c.Write(b[:k]); err != nil {
						return
					}
					b = b[k:]
				}
			} else if _, err := w.Write(b); err != nil {
				return
			}
		}
		if err := w.Flush(); err != nil {
			return
		}
	}
}

func (cl *Cluster) rngIntn(n int) int {
	cl.mu.Lock()
	defer cl.mu.Unlock()
	return cl.rng.Intn(n)
}

func (c *conn) enqueue(b []byte) {
	c.qmu.Lock()
	if !c.qclosed {
		c.queue = append(c.queue, b)
		c.qcond.Signal()
	}
	c.qmu.Unlock()
}

func (c *conn) closeQ() {
	c.qmu.Lock()
	c.qclosed = true
	c.qcond.Broadcast()
	c.qmu.Unlock()
}

// send queues a packet; the tx record is stamped before the bytes are queued.
func (c *conn) send(p *pkt, rec evlog.Rec) {
	rec.N = c.n.idx
	rec.Cn = c.id
	if rec.K == "" {
		rec.K = "sim.tx"
	}
	if rec.Op == 0 {
		rec.Op = int(p.op)
	}
	rec.Opq = p.opaque
	c.n.cl.logAdd(rec)
	c.enqueue(encPkt(p))
}

func (c *conn) reply(req *pkt, status uint16, extras, key, val []byte, cas uint64) {
	vb := -1
	switch req.op {
	case OpDcpStreamReq, OpDcpCloseStream, OpDcpFailoverLog, OpObserveSeqno, OpGet, OpSet, OpAdd, OpReplace, OpDelete, OpSubdocLookup, OpSubdocMutate:
		vb = int(req.vb)
	}
	c.send(&pkt{magic: 0x81, op: req.op, vb: status, opaque: req.opaque, extras: extras, key: key, val: val, cas: cas},
		evlog.Rec{K: "sim.tx", VB: vb, St: int(status)})
}

func (n *node) serveKV() {
	for {
		nc, err := n.kvL.Accept()
		if err != nil {
			return
		}
		c := &conn{n: n, c: nc, id: int(atomic.AddInt32(&n.cl.connCtr, 1))}
		c.qcond = sync.NewCond(&c.qmu)
		n.cl.mu.Lock()
		if n.cl.closed {
			n.cl.mu.Unlock()
			nc.Close()
			return
		}
		n.cl.conns[c] = struct{}{}
		n.cl.mu.Unlock()
		go c.writer()
		go c.loop()
	}
}

func (c *conn) loop() {
	cl := c.n.cl
	defer func() {
		c.c.Close()
		c.closeQ()
		cl.dropConn(c)
		cl.mu.Lock()
		delete(cl.conns, c)
		cl.mu.Unlock()
		cl.logAdd(evlog.Rec{K: "sim.connclose", N: c.n.idx, Cn: c.id, VB: -1, S: c.name})
	}()
	r := bufio.NewReader(c.c)
	for {
		p, err := readPkt(r)
		if err != nil {
			return
		}
		c.handle(p)
	}
}

func (cl *Cluster) dropConn(c *conn) {
	for _, vb := range cl.VBs {
		vb.mu.Lock()
		for _, s := range vb.streams {
			if s.c == c {
				s.closed = true
			}
		}
		vb.mu.Unlock()
	}
}

// OpenConns returns the number of client connections currently open (all nodes).
func (cl *Cluster) OpenConns() int {
	cl.mu.Lock()
	defer cl.mu.Unlock()
	return len(cl.conns)
}

// ConnOpen reports whether the connection with this id is still open.
func (cl *Cluster) ConnOpen(id int) bool {
	cl.mu.Lock()
	defer cl.mu.Unlock()
	for c := range cl.conns {
		if c.id == id {
			return true
		}
	}
	return false
}

// DropDCPConns closes every DCP connection (socket-closed stream ends on the client).
func (cl *Cluster) DropDCPConns() int {
	cl.mu.Lock()
	var cs []*conn
	for c := range cl.conns {
		if c.isDCP {
			cs = append(cs, c)
		}
	}
	cl.mu.Unlock()
	for _, c := range cs {
		c.c.Close()
	}
	return len(cs)
}

func (c *conn) handle(p *pkt) {
	cl := c.n.cl
	key := p.key
	var cid uint32
	switch p.op {
	case OpGet, OpSet, OpAdd, OpReplace, OpDelete, OpSubdocLookup, OpSubdocMutate:
		if c.collect {
			var l int
			cid, l = uleb(key)
			key = key[l:]
		}
	}
	req := &Req{Node: c.n.idx, ConnID: c.id, Conn: c.name, IsDCP: c.isDCP, Op: p.op, VB: p.vb, Key: key, Cid: cid,
		Extras: p.extras, Val: p.val, Opaque: p.opaque, Cas: p.cas, Replica: -1}
	rec := evlog.Rec{K: "sim.rx", N: c.n.idx, Cn: c.id, Op: int(p.op), VB: -1, Opq: p.opaque}
	switch p.op {
	case OpDcpStreamReq:
		rec.VB = int(p.vb)
		if len(p.extras) >= 48 {
			ex := p.extras
			rec.A = binary.BigEndian.Uint64(ex[8:])  // start
			rec.B = binary.BigEndian.Uint64(ex[16:]) // end
			rec.C = binary.BigEndian.Uint64(ex[24:]) // vbuuid
			rec.D = binary.BigEndian.Uint64(ex[32:]) // snap start
			rec.E = binary.BigEndian.Uint64(ex[40:]) // snap end
			rec.Seq = uint64(binary.BigEndian.Uint32(ex[0:]))
		}
		rec.S = string(p.val)
	case OpDcpCloseStream, OpDcpFailoverLog:
		rec.VB = int(p.vb)
	case OpObserveSeqno:
		rec.VB = int(p.vb)
		if len(p.val) >= 8 {
			rec.A = binary.BigEndian.Uint64(p.val)
		}
		cl.mu.Lock()
		if int(p.vb) < len(cl.VBMap) {
			for i, nd := range cl.VBMap[p.vb] {
				if nd == c.n.idx {
					req.Replica = i
					break
				}
			}
		}
		cl.mu.Unlock()
		rec.B = uint64(int64(req.Replica))
	case OpGet, OpSet, OpAdd, OpReplace, OpDelete, OpSubdocLookup, OpSubdocMutate:
		rec.VB = int(p.vb)
		rec.S = string(key)
		rec.A = uint64(cid)
		rec.C = p.cas
	case OpDcpControl:
		rec.S = string(p.key) + "=" + string(p.val)
	case OpDcpOpen, OpHello, OpSelectBucket, OpGetCollID:
		rec.S = string(p.key)
		if p.op == OpGetCollID && len(p.val) > 0 {
			rec.S = string(p.val)
		}
	case OpDcpBufferAck:
		rec.K = "sim.rx.ack"
	}
	req.T = cl.logAdd(rec)

	if h := cl.Hook; h != nil && p.op != OpDcpBufferAck {
		if a := h(req); a != nil {
			if a.Drop {
				c.c.Close()
				return
			}
			if a.NoReply {
				if a.After != nil {
					a.After()
				}
				return
			}
			do := func() {
				if a.HasStatus {
					c.reply(p, a.Status, nil, nil, a.Value, 0)
				} else {
					c.dispatch(p, key, cid, req)
				}
				if a.After != nil {
					a.After()
				}
			}
			if a.Delay > 0 || a.Hold != nil {
				wait := func() {
					if a.Hold != nil {
						<-a.Hold
					}
					if a.Delay > 0 {
						time.Sleep(a.Delay)
					}
					do()
				}
				if a.Async {
					go wait()
				} else {
					wait()
				}
				return
			}
			do()
			return
		}
	}
	c.dispatch(p, key, cid, req)
}

func (c *conn) dispatch(p *pkt, key []byte, cid uint32, req *Req) {
	cl := c.n.cl
	switch p.op {
	case OpHello:
		var out []byte
		for i := 0; i+1 < len(p.val); i += 2 {
			f := binary.BigEndian.Uint16(p.val[i:])
			switch f {
			case 0x03, 0x05, 0x06, 0x07, 0x08, 0x0b, 0x10, 0x11, 0x12:
				out = append(out, p.val[i], p.val[i+1])
				if f == 0x12 {
					c.collect = true
				}
			case 0x0a:
				if cl.Snappy {
					out = append(out, p.val[i], p.val[i+1])
				}
			}
		}
		c.name = string(p.key)
		cl.mu.Lock()
		cl.Hellos = append(cl.Hellos, c.name)
		cl.mu.Unlock()
		c.reply(p, 0, nil, nil, out, 0)
	case OpErrMap:
		c.reply(p, 0, nil, nil, []byte(`{"version":2,"revision":1,"errors":{}}`), 0)
	case OpSASLList:
		c.reply(p, 0, nil, nil, []byte("PLAIN"), 0)
	case OpSASLAuth, OpSASLStep:
		c.reply(p, 0, nil, nil, []byte("Authenticated"), 0)
	case OpSelectBucket:
		if string(p.key) != cl.Bucket {
			c.reply(p, StKeyNotFound, nil, nil, nil, 0)
			return
		}
		c.reply(p, 0, nil, nil, nil, 0)
	case OpGetClusterCfg:
		cl.mu.Lock()
		rev, ep := cl.Rev, cl.RevEpoch
		cl.mu.Unlock()
		isDCP := uint64(0)
		if c.isDCP {
			isDCP = 1
		}
		cl.logAdd(evlog.Rec{K: "sim.cfg", VB: -1, A: uint64(rev), B: uint64(ep), C: isDCP, Cn: c.id})
		c.reply(p, 0, nil, nil, cl.configJSON(), 0)
	case OpNoop:
		c.reply(p, 0, nil, nil, nil, 0)
	case OpGetCollID:
		path := string(p.val)
		if path == "" {
			path = string(p.key)
		}
		parts := strings.SplitN(path, ".", 2)
		if len(parts) == 2 {
			if parts[0] == "" {
				parts[0] = "_default"
			}
			if parts[1] == "" {
				parts[1] = "_default"
			}
			path = parts[0] + "." + parts[1]
		}
		cl.mu.Lock()
		id, ok := cl.Collections[path]
		cl.mu.Unlock()
		if !ok {
			c.reply(p, StUnknownColl, nil, nil, nil, 0)
			return
		}
		c.reply(p, 0, append(u64(1), u32(id)...), nil, nil, 0)
	case OpDcpOpen:
		c.isDCP = true
		c.reply(p, 0, nil, nil, nil, 0)
	case OpDcpControl:
		cl.mu.Lock()
		cl.DcpControls = append(cl.DcpControls, string(p.key)+"="+string(p.val))
		cl.mu.Unlock()
		c.reply(p, 0, nil, nil, nil, 0)
	case OpDcpBufferAck, OpDcpNoop:
		// no reply
	case OpDcpFailoverLog:
		if int(p.vb) >= len(cl.VBs) {
			c.reply(p, StNotMyVB, nil, nil, nil, 0)
			return
		}
		vb := cl.VBs[p.vb]
		vb.mu.Lock()
		var out []byte
		for _, f := range vb.Failover {
			out = append(out, u64(f.UUID)...)
			out = append(out, u64(f.Seq)...)
		}
		vb.mu.Unlock()
		c.reply(p, 0, nil, nil, out, 0)
	case OpGetAllVBSeqnos:
		var out []byte
		cl.mu.Lock()
		vbmap := cl.VBMap
		cl.mu.Unlock()
		for i, vb := range cl.VBs {
			if vbmap[i][0] != c.n.idx {
				continue
			}
			vb.mu.Lock()
			hi := vb.High
			if len(p.extras) >= 8 {
				// collection-aware query: high seqno of that collection in this vBucket
				cid := binary.BigEndian.Uint32(p.extras[4:])
				hi = 0
				if ch, ok := vb.CollHigh[cid]; ok {
					hi = ch // scripted
				} else {
					for _, it := range vb.Items {
						if it.Cid == cid && it.SeqNo > hi {
							hi = it.SeqNo
						}
					}
					if len(vb.Items) == 0 {
						hi = vb.High // synthetic vBuckets without items: everything lives in the queried collection
					}
				}
			}
			out = append(out, u16(uint16(i))...)
			out = append(out, u64(hi)...)
			vb.mu.Unlock()
		}
		// the reply's payload is recorded so that oracles compare with what was actually sent
		c.send(&pkt{magic: 0x81, op: p.op, vb: 0, opaque: p.opaque, val: out}, evlog.Rec{K: "sim.tx", VB: -1, S: string(out), A: uint64(len(p.extras))})
	case OpDcpStreamReq:
		c.streamReq(p)
	case OpDcpCloseStream:
		if int(p.vb) >= len(cl.VBs) {
			c.reply(p, StNotMyVB, nil, nil, nil, 0)
			return
		}
		vb := cl.VBs[p.vb]
		vb.mu.Lock()
		var found *dcpStream
		for _, s := range vb.streams {
			if s.c == c && !s.closed {
				found = s
			}
		}
		vb.mu.Unlock()
		if found == nil {
			c.reply(p, StKeyNotFound, nil, nil, nil, 0)
			return
		}
		found.mu.Lock()
		found.closed = true
		c.reply(p, 0, nil, nil, nil, 0)
		c.send(&pkt{magic: 0x80, op: OpDcpStreamEnd, vb: p.vb, opaque: found.opaque, extras: u32(1)},
			evlog.Rec{K: "sim.tx.end", VB: int(p.vb), St: 1})
		found.mu.Unlock()
	case OpObserveSeqno:
		if int(p.vb) >= len(cl.VBs) {
			c.reply(p, StNotMyVB, nil, nil, nil, 0)
			return
		}
		vb := cl.VBs[p.vb]
		vb.mu.Lock()
		uu, pe := vb.Failover[0].UUID, vb.High
		if st := vb.Obs[req.Replica]; st != nil && st.Set {
			uu, pe = st.UUID, st.Persist
		}
		cur := vb.High
		vb.mu.Unlock()
		out := []byte{0}
		out = append(out, u16(p.vb)...)
		out = append(out, u64(uu)...)
		out = append(out, u64(pe)...)
		out = append(out, u64(cur)...)
		c.send(&pkt{magic: 0x81, op: p.op, vb: 0, opaque: p.opaque, val: out},
			evlog.Rec{K: "sim.tx", VB: int(p.vb), A: uu, B: uint64(int64(req.Replica)), Seq: pe})
	case OpGet:
		cl.mu.Lock()
		d := cl.liveDoc(string(key))
		var val []byte
		var fl uint32
		var cas uint64
		if d != nil && d.Value != nil {
			val, fl, cas = append([]byte{}, d.Value...), d.Flags, d.Cas
		}
		cl.mu.Unlock()
		if val == nil {
			c.reply(p, StKeyNotFound, nil, nil, nil, 0)
			return
		}
		c.reply(p, 0, u32(fl), nil, val, cas)
	case OpSet, OpAdd, OpReplace:
		cl.mu.Lock()
		d := cl.liveDoc(string(key))
		if p.op == OpAdd && d != nil {
			cl.mu.Unlock()
			c.reply(p, StKeyExists, nil, nil, nil, 0)
			return
		}
		if p.op == OpReplace && d == nil {
			cl.mu.Unlock()
			c.reply(p, StKeyNotFound, nil, nil, nil, 0)
			return
		}
		if d != nil && p.cas != 0 && p.cas != d.Cas {
			cl.mu.Unlock()
			c.reply(p, StKeyExists, nil, nil, nil, 0)
			return
		}
		if d == nil {
			d = &Doc{Xattrs: map[string]json.RawMessage{}}
			cl.Docs[string(key)] = d
		}
		d.Value = append([]byte{}, p.val...)
		if len(p.extras) >= 8 {
			d.Flags = binary.BigEndian.Uint32(p.extras)
			d.Expire = expiryTime(binary.BigEndian.Uint32(p.extras[4:]))
		}
		cl.casCtr++
		d.Cas = uint64(time.Now().UnixNano()) + cl.casCtr
		cas := d.Cas
		val := append([]byte{}, d.Value...)
		loop := cl.Loopback
		cl.mu.Unlock()
		cl.logAdd(evlog.Rec{K: "sim.docwrite", VB: int(p.vb), S: string(key), Op: int(p.op)})
		if loop {
			cl.Append(p.vb, []Item{{Kind: KMutation, Key: append([]byte{}, key...), Value: val, Cid: cid, Cas: cas}})
		}
		c.reply(p, 0, nil, nil, nil, cas)
	case OpDelete:
		cl.mu.Lock()
		d := cl.liveDoc(string(key))
		if d != nil {
			delete(cl.Docs, string(key))
		}
		loop := cl.Loopback
		cl.mu.Unlock()
		if d == nil {
			c.reply(p, StKeyNotFound, nil, nil, nil, 0)
			return
		}
		cl.logAdd(evlog.Rec{K: "sim.docwrite", VB: int(p.vb), S: string(key), Op: int(p.op)})
		if loop {
			cl.Append(p.vb, []Item{{Kind: KDeletion, Key: append([]byte{}, key...), Cid: cid}})
		}
		c.reply(p, 0, nil, nil, nil, 1)
	case OpSubdocLookup:
		c.subdocLookup(p, key)
	case OpSubdocMutate:
		c.subdocMutate(p, key, cid)
	default:
		c.reply(p, StUnknownCmd, nil, nil, nil, 0)
	}
}

func expiryTime(e uint32) time.Time {
	if e == 0 {
		return time.Time{}
	}
	if e <= 30*24*3600 {
		return time.Now().Add(time.Duration(e) * time.Second)
	}
	return time.Unix(int64(e), 0)
}

// liveDoc returns the document unless missing or expired; caller holds cl.mu.
func (cl *Cluster) liveDoc(key string) *Doc {
	d := cl.Docs[key]
	if d == nil {
		return nil
	}
	if !d.Expire.IsZero() && time.Now().After(d.Expire) {
		delete(cl.Docs, key)
		return nil
	}
	return d
}

func (c *conn) subdocLookup(p *pkt, key []byte) {
	cl := c.n.cl
	cl.mu.Lock()
	d := cl.liveDoc(string(key))
	if d == nil {
		cl.mu.Unlock()
		c.reply(p, StKeyNotFound, nil, nil, nil, 0)
		return
	}
	var out []byte
	anyFail := false
	v := p.val
	for len(v) >= 4 {
		fl := v[1]
		pl := int(binary.BigEndian.Uint16(v[2:]))
		if 4+pl > len(v) {
			break
		}
		path := string(v[4 : 4+pl])
		v = v[4+pl:]
		var val []byte
		st := uint16(0)
		if fl&0x04 != 0 {
			x, ok := d.Xattrs[path]
			if !ok {
				st = StSubdocPathNotFound
			} else {
				val = x
			}
		} else if path == "" {
			val = d.Value
		} else {
			m := map[string]json.RawMessage{}
			_ = json.Unmarshal(d.Value, &m)
			x, ok := m[path]
			if !ok {
				st = StSubdocPathNotFound
			} else {
				val = x
			}
		}
		if st != 0 {
			anyFail = true
		}
		out = append(out, u16(st)...)
		out = append(out, u32(uint32(len(val)))...)
		out = append(out, val...)
	}
	cas := d.Cas
	cl.mu.Unlock()
	status := uint16(0)
	if anyFail {
		status = StSubdocMultiFail
	}
	c.reply(p, status, nil, nil, out, cas)
}

func (c *conn) subdocMutate(p *pkt, key []byte, cid uint32) {
	cl := c.n.cl
	var docFlags byte
	var expiry uint32
	ex := p.extras
	if len(ex) >= 4 {
		expiry = binary.BigEndian.Uint32(ex)
		ex = ex[4:]
	}
	if len(ex) == 1 {
		docFlags = ex[0]
	}
	cl.mu.Lock()
	d := cl.liveDoc(string(key))
	if d == nil {
		if docFlags&0x03 == 0 { // neither mkdoc nor add
			cl.mu.Unlock()
			c.reply(p, StKeyNotFound, nil, nil, nil, 0)
			return
		}
		d = &Doc{Xattrs: map[string]json.RawMessage{}, Value: []byte("{}")}
		cl.Docs[string(key)] = d
	} else if docFlags&0x02 != 0 {
		cl.mu.Unlock()
		c.reply(p, StKeyExists, nil, nil, nil, 0)
		return
	}
	if p.cas != 0 && p.cas != d.Cas {
		cl.mu.Unlock()
		c.reply(p, StKeyExists, nil, nil, nil, 0)
		return
	}
	v := p.val
	xattrPath := ""
	var xattrVal []byte
	for len(v) >= 8 {
		op, fl := v[0], v[1]
		pl := int(binary.BigEndian.Uint16(v[2:]))
		vl := int(binary.BigEndian.Uint32(v[4:]))
		if 8+pl+vl > len(v) {
			break
		}
		path := string(v[8 : 8+pl])
		val := v[8+pl : 8+pl+vl]
		v = v[8+pl+vl:]
		switch {
		case op == 0x01: // set doc
			d.Value = append([]byte{}, val...)
		case op == 0xc8 && fl&0x04 != 0:
			d.Xattrs[path] = append(json.RawMessage{}, val...)
			xattrPath, xattrVal = path, append([]byte{}, val...)
		case op == 0xc8:
			m := map[string]json.RawMessage{}
			_ = json.Unmarshal(d.Value, &m)
			m[path] = append(json.RawMessage{}, val...)
			d.Value, _ = json.Marshal(m)
		}
	}
	if expiry != 0 {
		d.Expire = expiryTime(expiry)
	}
	cl.casCtr++
	d.Cas = uint64(time.Now().UnixNano()) + cl.casCtr
	cas := d.Cas
	val := append([]byte{}, d.Value...)
	loop := cl.Loopback
	cl.mu.Unlock()
	// The write record is stamped when the write is applied (after the request was read).
	cl.logAdd(evlog.Rec{K: "sim.docwrite", VB: int(p.vb), S: string(key), Op: int(p.op), A: uint64(len(xattrVal)), Cn: c.id})
	if xattrPath != "" {
		cl.logAdd(evlog.Rec{K: "sim.xattrwrite", VB: int(p.vb), S: string(key) + "\x00" + xattrPath + "\x00" + string(xattrVal)})
	}
	if loop {
		cl.Append(p.vb, []Item{{Kind: KMutation, Key: append([]byte{}, key...), Value: val, Cid: cid, Cas: cas}})
		if cl.LoopbackReplyDelay > 0 {
			time.Sleep(cl.LoopbackReplyDelay)
		}
	}
	c.reply(p, 0, nil, nil, nil, cas)
}

// GetDoc returns a copy of a stored document (nil if missing).
func (cl *Cluster) GetDoc(key string) *Doc {
	cl.mu.Lock()
	defer cl.mu.Unlock()
	d := cl.liveDoc(key)
	if d == nil {
		return nil
	}
	cp := &Doc{Value: append([]byte{}, d.Value...), Xattrs: map[string]json.RawMessage{}, Cas: d.Cas, Flags: d.Flags, Expire: d.Expire}
	for k, v := range d.Xattrs {
		cp.Xattrs[k] = append(json.RawMessage{}, v...)
	}
	return cp
}

// PutDoc stores a document directly (no history append).
func (cl *Cluster) PutDoc(key string, value []byte, xattrs map[string]json.RawMessage) {
	cl.mu.Lock()
	defer cl.mu.Unlock()
	d := &Doc{Value: value, Xattrs: map[string]json.RawMessage{}}
	for k, v := range xattrs {
		d.Xattrs[k] = v
	}
	cl.casCtr++
	d.Cas = uint64(time.Now().UnixNano()) + cl.casCtr
	cl.Docs[key] = d
}

func (cl *Cluster) DeleteDoc(key string) {
	cl.mu.Lock()
	delete(cl.Docs, key)
	cl.mu.Unlock()
}

func (cl *Cluster) DocKeys() []string {
	cl.mu.Lock()
	defer cl.mu.Unlock()
	var out []string
	for k := range cl.Docs {
		if cl.liveDoc(k) != nil {
			out = append(out, k)
		}
	}
	return out
}

// ---------------------------------------------------------------------------------------------
// vBucket histories and DCP streams

// SetHistory installs a complete history for a vBucket. Items must have ascending SeqNo; SnapS/SnapE
// of zero are filled so that each item is its own snapshot.
func (cl *Cluster) SetHistory(vbID uint16, items []Item, high uint64) {
	vb := cl.VBs[vbID]
	vb.mu.Lock()
	vb.Items = nil
	for _, it := range items {
		if it.SnapS == 0 && it.SnapE == 0 {
			it.SnapS, it.SnapE = it.SeqNo, it.SeqNo
		}
		if it.RevNo == 0 {
			it.RevNo = 1
		}
		vb.Items = append(vb.Items, it)
		if it.SeqNo > vb.High {
			vb.High = it.SeqNo
		}
	}
	if high != 0 {
		vb.High = high
	}
	vb.mu.Unlock()
}

func (cl *Cluster) SetHigh(vbID uint16, high uint64) {
	vb := cl.VBs[vbID]
	vb.mu.Lock()
	vb.High = high
	vb.mu.Unlock()
}

func (cl *Cluster) High(vbID uint16) uint64 {
	vb := cl.VBs[vbID]
	vb.mu.Lock()
	defer vb.mu.Unlock()
	return vb.High
}

func (cl *Cluster) SetFailover(vbID uint16, f []Failover) {
	vb := cl.VBs[vbID]
	vb.mu.Lock()
	vb.Failover = append([]Failover{}, f...)
	vb.mu.Unlock()
}

// SetObserve scripts the OBSERVE_SEQNO answer of one replica index of a vBucket.
func (cl *Cluster) SetObserve(vbID uint16, replica int, uuid, persist uint64) {
	vb := cl.VBs[vbID]
	vb.mu.Lock()
	vb.Obs[replica] = &ObsState{UUID: uuid, Persist: persist, Set: true}
	vb.mu.Unlock()
}

// Append adds items as ONE new snapshot to the vBucket history (seqnos assigned when zero)
// and pushes them to the open streams. Returns the seqnos.
func (cl *Cluster) Append(vbID uint16, items []Item) []uint64 {
	vb := cl.VBs[vbID]
	vb.mu.Lock()
	var seqs []uint64
	next := vb.High
	for i := range items {
		if items[i].SeqNo == 0 {
			next++
			items[i].SeqNo = next
		} else {
			next = items[i].SeqNo
		}
	}
	if len(items) == 0 {
		vb.mu.Unlock()
		return nil
	}
	ss, se := items[0].SeqNo, items[len(items)-1].SeqNo
	for _, it := range items {
		if it.SnapS == 0 && it.SnapE == 0 {
			it.SnapS, it.SnapE = ss, se
		}
		if it.Cas == 0 {
			it.Cas = uint64(time.Now().UnixNano())
		}
		if it.RevNo == 0 {
			it.RevNo = 1
		}
		vb.Items = append(vb.Items, it)
		seqs = append(seqs, it.SeqNo)
	}
	if next > vb.High {
		vb.High = next
	}
	streams := append([]*dcpStream{}, vb.streams...)
	vb.mu.Unlock()
	for _, s := range streams {
		s.push(cl, vb)
	}
	return seqs
}

// push sends everything the stream has not seen yet, keeping the recorded snapshot layout.
func (s *dcpStream) push(cl *Cluster, vb *VB) {
	s.mu.Lock()
	defer s.mu.Unlock()
	if s.closed {
		return
	}
	vb.mu.Lock()
	var batch []Item
	for _, it := range vb.Items {
		if it.SeqNo > s.last && it.SeqNo <= s.end {
			batch = append(batch, it)
		}
	}
	high := vb.High
	vb.mu.Unlock()
	for _, it := range batch {
		if !s.haveSn || it.SnapS != s.lastSnS || it.SnapE != s.lastSnE {
			ex := append(u64(it.SnapS), u64(it.SnapE)...)
			fl := uint32(1) // memory snapshot
			if s.c.n.cl.DiskMarkers {
				fl = 2 | 4 // on-disk snapshot with a checkpoint flag, as a backfill from the data files is announced
			}
			ex = append(ex, u32(fl)...)
			s.c.send(&pkt{magic: 0x80, op: OpDcpSnapshot, vb: s.vb, opaque: s.opaque, extras: ex},
				evlog.Rec{K: "sim.tx.marker", VB: int(s.vb), A: it.SnapS, B: it.SnapE})
			s.lastSnS, s.lastSnE, s.haveSn = it.SnapS, it.SnapE, true
		}
		s.sendItem(it)
		s.last = it.SeqNo
	}
	if s.last >= s.end || (high >= s.end && s.end != ^uint64(0)) {
		s.closed = true
		s.c.send(&pkt{magic: 0x80, op: OpDcpStreamEnd, vb: s.vb, opaque: s.opaque, extras: u32(0)},
			evlog.Rec{K: "sim.tx.end", VB: int(s.vb), St: 0})
	}
}

func (s *dcpStream) sendItem(it Item) {
	key := it.Key
	if s.c.collect {
		key = append(putUleb(it.Cid), key...)
	}
	rec := evlog.Rec{K: "sim.tx.item", VB: int(s.vb), Seq: it.SeqNo, A: uint64(it.Kind), S: string(it.Key), C: it.Cas}
	switch it.Kind {
	case KMutation:
		e := append(u64(it.SeqNo), u64(it.RevNo)...)
		e = append(e, u32(it.Flags)...)
		e = append(e, u32(it.Expiry)...)
		e = append(e, u32(0)...)
		e = append(e, 0, 0, 0) // nmeta(2) nru(1)
		s.c.send(&pkt{magic: 0x80, op: OpDcpMutation, vb: s.vb, opaque: s.opaque, extras: e, key: key, val: it.Value, cas: it.Cas, datatype: it.Datatype}, rec)
	case KDeletion:
		e := append(u64(it.SeqNo), u64(it.RevNo)...)
		e = append(e, 0, 0)
		s.c.send(&pkt{magic: 0x80, op: OpDcpDeletion, vb: s.vb, opaque: s.opaque, extras: e, key: key, val: it.Value, cas: it.Cas, datatype: it.Datatype}, rec)
	case KExpiration:
		e := append(u64(it.SeqNo), u64(it.RevNo)...)
		e = append(e, u32(0)...)
		s.c.send(&pkt{magic: 0x80, op: OpDcpExpiration, vb: s.vb, opaque: s.opaque, extras: e, key: key, cas: it.Cas}, rec)
	case KSeqnoAdv:
		s.c.send(&pkt{magic: 0x80, op: OpDcpSeqnoAdv, vb: s.vb, opaque: s.opaque, extras: u64(it.SeqNo)}, rec)
	case KSystem:
		e := append(u64(it.SeqNo), u32(it.SysEvent)...)
		e = append(e, 0) // version 0
		var val []byte
		switch it.SysEvent {
		case 0: // collection create: manifest uid, scope id, collection id
			val = append(u64(2), u32(0)...)
			val = append(val, u32(it.Cid)...)
		case 1:
			val = append(u64(2), u32(0)...)
			val = append(val, u32(it.Cid)...)
		case 2:
			val = append(u64(2), u32(it.Cid)...)
		case 3, 4:
			val = append(u64(2), u32(8)...)
		case 5:
			val = append(u64(2), u32(it.Cid)...)
			val = append(val, u32(0)...)
		}
		s.c.send(&pkt{magic: 0x80, op: OpDcpSystemEvent, vb: s.vb, opaque: s.opaque, extras: e, key: it.Key, val: val}, rec)
	}
}

// SendRaw sends one item on every open stream of the vBucket without touching the history or any
// marker (used for ill-formed server behaviour: an item outside its announced snapshot).
func (cl *Cluster) SendRaw(vbID uint16, it Item) int {
	vb := cl.VBs[vbID]
	vb.mu.Lock()
	streams := append([]*dcpStream{}, vb.streams...)
	vb.mu.Unlock()
	n := 0
	for _, s := range streams {
		s.mu.Lock()
		if !s.closed {
			s.sendItem(it)
			n++
		}
		s.mu.Unlock()
	}
	return n
}

// EndStreams ends every open stream of the vBucket with the given status. Returns how many were ended.
func (cl *Cluster) EndStreams(vbID uint16, status uint32) int {
	vb := cl.VBs[vbID]
	vb.mu.Lock()
	streams := append([]*dcpStream{}, vb.streams...)
	vb.mu.Unlock()
	n := 0
	for _, s := range streams {
		s.mu.Lock()
		if !s.closed {
			s.closed = true
			s.c.send(&pkt{magic: 0x80, op: OpDcpStreamEnd, vb: s.vb, opaque: s.opaque, extras: u32(status)},
				evlog.Rec{K: "sim.tx.end", VB: int(s.vb), St: int(status)})
			n++
		}
		s.mu.Unlock()
	}
	return n
}

// OpenStreams returns the number of streams currently open for vbID.
func (cl *Cluster) OpenStreams(vbID uint16) int {
	vb := cl.VBs[vbID]
	vb.mu.Lock()
	streams := append([]*dcpStream{}, vb.streams...)
	vb.mu.Unlock()
	n := 0
	for _, s := range streams {
		s.mu.Lock()
		if !s.closed {
			n++
		}
		s.mu.Unlock()
	}
	return n
}

func (c *conn) streamReq(p *pkt) {
	cl := c.n.cl
	ex := p.extras
	if len(ex) < 48 || int(p.vb) >= len(cl.VBs) {
		c.reply(p, StNotMyVB, nil, nil, nil, 0)
		return
	}
	start := binary.BigEndian.Uint64(ex[8:])
	end := binary.BigEndian.Uint64(ex[16:])
	uuid := binary.BigEndian.Uint64(ex[24:])
	vb := cl.VBs[p.vb]
	// a second stream for a vBucket that still has an open stream on this connection is refused (KEY_EEXISTS)
	vb.mu.Lock()
	others := append([]*dcpStream{}, vb.streams...)
	vb.mu.Unlock()
	for _, os := range others {
		os.mu.Lock()
		dup := os.c == c && !os.closed
		os.mu.Unlock()
		if dup {
			cl.logAdd(evlog.Rec{K: "sim.dupstream", VB: int(p.vb), Cn: c.id})
			c.reply(p, StKeyExists, nil, nil, nil, 0)
			return
		}
	}
	vb.mu.Lock()
	if cl.StrictUUID && start != 0 {
		ok := false
		for _, f := range vb.Failover {
			if f.UUID == uuid {
				ok = true
			}
		}
		if !ok {
			vb.mu.Unlock()
			c.reply(p, StRollback, nil, nil, u64(0), 0)
			return
		}
	}
	s := &dcpStream{c: c, vb: p.vb, opaque: p.opaque, last: start, end: end}
	s.mu.Lock() // nobody else can see s yet; held until the reply is queued so that no item overtakes it
	vb.streams = append(vb.streams, s)
	var out []byte
	for _, f := range vb.Failover {
		out = append(out, u64(f.UUID)...)
		out = append(out, u64(f.Seq)...)
	}
	first := uint64(0)
	if len(vb.Failover) > 0 {
		first = vb.Failover[0].UUID
	}
	vb.mu.Unlock()
	c.send(&pkt{magic: 0x81, op: p.op, vb: 0, opaque: p.opaque, val: out}, evlog.Rec{K: "sim.tx", VB: int(p.vb), A: first, S: string(out)})
	s.mu.Unlock()
	s.push(cl, vb)
}

func (cl *Cluster) SetVersion(v string) { cl.mu.Lock(); cl.Version = v; cl.mu.Unlock() }

func (cl *Cluster) SetBucketInfo(bucketType, storage string) {
	cl.mu.Lock()
	cl.BucketType, cl.Storage = bucketType, storage
	cl.mu.Unlock()
}

// Controls returns the DCP_CONTROL key=value pairs received so far.
func (cl *Cluster) Controls() []string {
	cl.mu.Lock()
	defer cl.mu.Unlock()
	return append([]string{}, cl.DcpControls...)
}

// HistoryCopy returns a copy of the vBucket's history.
func (cl *Cluster) HistoryCopy(vbID uint16) []Item {
	vb := cl.VBs[vbID]
	vb.mu.Lock()
	defer vb.mu.Unlock()
	return append([]Item{}, vb.Items...)
}

func (cl *Cluster) FailoverCopy(vbID uint16) []Failover {
	vb := cl.VBs[vbID]
	vb.mu.Lock()
	defer vb.mu.Unlock()
	return append([]Failover{}, vb.Failover...)
}

func (cl *Cluster) SetCollHigh(vbID uint16, cid uint32, high uint64) {
	vb := cl.VBs[vbID]
	vb.mu.Lock()
	if vb.CollHigh == nil {
		vb.CollHigh = map[uint32]uint64{}
	}
	vb.CollHigh[cid] = high
	vb.mu.Unlock()
}

// SetRevision sets the revision counters of the cluster map (call inside BumpConfig's f, which then adds 1 to rev).
func (cl *Cluster) SetRevision(rev, epoch int) {
	cl.Rev, cl.RevEpoch = rev, epoch
}

// Revision returns (rev, revEpoch).
func (cl *Cluster) Revision() (int, int) {
	cl.mu.Lock()
	defer cl.mu.Unlock()
	return cl.Rev, cl.RevEpoch
}

// SetReplicaNode changes which node holds replica index ix of the vBucket (-1 = unassigned). Call before clients bootstrap, or follow with BumpConfig.
func (cl *Cluster) SetReplicaNode(vbID uint16, ix int, node int) {
	cl.mu.Lock()
	if int(vbID) < len(cl.VBMap) && ix < len(cl.VBMap[vbID]) {
		cl.VBMap[vbID][ix] = node
	}
	cl.mu.Unlock()
}

// ReplicaNodes returns a copy of the vBucket's map row.
func (cl *Cluster) ReplicaNodes(vbID uint16) []int {
	cl.mu.Lock()
	defer cl.mu.Unlock()
	return append([]int{}, cl.VBMap[vbID]...)
}
