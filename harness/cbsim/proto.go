package cbsim

import (
	"encoding/binary"
	"io"
)

// Memcached binary protocol packet (request, response, server-initiated request).
type pkt struct {
	magic, op        byte
	datatype         byte
	vb               uint16 // vbucket for requests, status for responses
	opaque           uint32
	cas              uint64
	extras, key, val []byte
	frames           []byte
}

func readPkt(r io.Reader) (*pkt, error) {
	h := make([]byte, 24)
	if _, err := io.ReadFull(r, h); err != nil {
		return nil, err
	}
	p := &pkt{magic: h[0], op: h[1], datatype: h[5], vb: binary.BigEndian.Uint16(h[6:]),
		opaque: binary.BigEndian.Uint32(h[12:]), cas: binary.BigEndian.Uint64(h[16:])}
	body := binary.BigEndian.Uint32(h[8:])
	extLen := int(h[4])
	var keyLen, frLen int
	if h[0] == 0x08 || h[0] == 0x18 {
		frLen = int(h[2])
		keyLen = int(h[3])
	} else {
		keyLen = int(binary.BigEndian.Uint16(h[2:]))
	}
	b := make([]byte, body)
	if _, err := io.ReadFull(r, b); err != nil {
		return nil, err
	}
	if frLen+extLen+keyLen > len(b) {
		return nil, io.ErrUnexpectedEOF
	}
	p.frames = b[:frLen]
	p.extras = b[frLen : frLen+extLen]
	p.key = b[frLen+extLen : frLen+extLen+keyLen]
	p.val = b[frLen+extLen+keyLen:]
	return p, nil
}

func encPkt(p *pkt) []byte {
	body := len(p.extras) + len(p.key) + len(p.val)
	b := make([]byte, 24+body)
	b[0] = p.magic
	b[1] = p.op
	binary.BigEndian.PutUint16(b[2:], uint16(len(p.key)))
	b[4] = byte(len(p.extras))
	b[5] = p.datatype
	binary.BigEndian.PutUint16(b[6:], p.vb)
	binary.BigEndian.PutUint32(b[8:], uint32(body))
	binary.BigEndian.PutUint32(b[12:], p.opaque)
	binary.BigEndian.PutUint64(b[16:], p.cas)
	copy(b[24:], p.extras)
	copy(b[24+len(p.extras):], p.key)
	copy(b[24+len(p.extras)+len(p.key):], p.val)
	return b
}

func uleb(b []byte) (uint32, int) {
	var v uint32
	var s uint
	for i, x := range b {
		v |= uint32(x&0x7f) << s
		if x&0x80 == 0 {
			return v, i + 1
		}
		s += 7
	}
	return v, len(b)
}

func putUleb(v uint32) []byte {
	var out []byte
	for {
		b := byte(v & 0x7f)
		v >>= 7
		if v != 0 {
			out = append(out, b|0x80)
		} else {
			out = append(out, b)
			return out
		}
	}
}

func u64(v uint64) []byte { b := make([]byte, 8); binary.BigEndian.PutUint64(b, v); return b }
func u32(v uint32) []byte { b := make([]byte, 4); binary.BigEndian.PutUint32(b, v); return b }
func u16(v uint16) []byte { b := make([]byte, 2); binary.BigEndian.PutUint16(b, v); return b }

// Opcodes used by the simulated node.
const (
	OpGet            = 0x00
	OpSet            = 0x01
	OpAdd            = 0x02
	OpReplace        = 0x03
	OpDelete         = 0x04
	OpNoop           = 0x0a
	OpHello          = 0x1f
	OpSASLList       = 0x20
	OpSASLAuth       = 0x21
	OpSASLStep       = 0x22
	OpGetAllVBSeqnos = 0x48
	OpDcpOpen        = 0x50
	OpDcpCloseStream = 0x52
	OpDcpStreamReq   = 0x53
	OpDcpFailoverLog = 0x54
	OpDcpStreamEnd   = 0x55
	OpDcpSnapshot    = 0x56
	OpDcpMutation    = 0x57
	OpDcpDeletion    = 0x58
	OpDcpExpiration  = 0x59
	OpDcpNoop        = 0x5c
	OpDcpBufferAck   = 0x5d
	OpDcpControl     = 0x5e
	OpDcpSystemEvent = 0x5f
	OpDcpSeqnoAdv    = 0x64
	OpDcpOSO         = 0x65
	OpSelectBucket   = 0x89
	OpObserveSeqno   = 0x91
	OpGetClusterCfg  = 0xb5
	OpCollManifest   = 0xba
	OpGetCollID      = 0xbb
	OpSubdocLookup   = 0xd0
	OpSubdocMutate   = 0xd1
	OpErrMap         = 0xfe
)

// Status codes.
const (
	StOK                 = 0x00
	StKeyNotFound        = 0x01
	StKeyExists          = 0x02
	StNotMyVB            = 0x07
	StRollback           = 0x23
	StNoAccess           = 0x24
	StBusy               = 0x85
	StTmpFail            = 0x86
	StInternal           = 0x84
	StUnknownCmd         = 0x81
	StUnknownColl        = 0x88
	StSubdocPathNotFound = 0xc0
	StSubdocMultiFail    = 0xcc
)
