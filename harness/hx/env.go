package hx

import (
	"fmt"
	"io"
	"net"
	"net/http"
	"os"
	"runtime"
	"strings"
	"sync"
	"time"

	dcp "github.com/Trendyol/go-dcp"
	"github.com/Trendyol/go-dcp/config"
	"github.com/Trendyol/go-dcp/logger"
	"github.com/Trendyol/go-dcp/metadata"
	"github.com/Trendyol/go-dcp/models"

	"verif/harness/cbsim"
	"verif/harness/evlog"
)

// capLogger captures the library's log lines in a bounded ring (attached to witnesses), prints nothing.
type capLogger struct {
	mu    sync.Mutex
	lines []string
}

// LogHook, when set, is called synchronously with every debug/info/warn/error line the library logs: a
// harness can act exactly at the point of the library's execution where that line is written.
var LogHook func(line string)

func (c *capLogger) add(level, m string, a ...interface{}) {
	if level == "trace" || level == "debug" {
		return
	}
	s := level + ": " + fmt.Sprintf(m, a...)
	if h := LogHook; h != nil {
		h(s)
	}
	c.mu.Lock()
	if len(c.lines) > 400 {
		c.lines = c.lines[200:]
	}
	c.lines = append(c.lines, s)
	c.mu.Unlock()
	if os.Getenv("VERIF_LIBLOG") != "" {
		fmt.Fprintln(os.Stderr, "LIB "+s)
	}
}
func (c *capLogger) Trace(m string, a ...interface{}) {}
func (c *capLogger) Debug(m string, a ...interface{}) {
	// not captured; a harness that placed a hook may act at debug lines too
	if h := LogHook; h != nil {
		h("debug: " + fmt.Sprintf(m, a...))
	}
}
func (c *capLogger) Info(m string, a ...interface{})  { c.add("info", m, a...) }
func (c *capLogger) Warn(m string, a ...interface{})  { c.add("warn", m, a...) }
func (c *capLogger) Error(m string, a ...interface{}) { c.add("error", m, a...) }
func (c *capLogger) Log(l string, m string, a ...interface{}) {
	c.add(l, m, a...)
}

var libLog = &capLogger{}

// QuietLogger installs the capturing logger as the library's process-wide logger.
func QuietLogger() { logger.Log = libLog }

// LibLogTail returns the last n captured library log lines.
func LibLogTail(n int) []string {
	libLog.mu.Lock()
	defer libLog.mu.Unlock()
	if len(libLog.lines) <= n {
		return append([]string{}, libLog.lines...)
	}
	return append([]string{}, libLog.lines[len(libLog.lines)-n:]...)
}

type Env struct {
	Log *evlog.Log
	Sim *cbsim.Cluster
}

type EnvOpts struct {
	NumVB    int
	Nodes    int
	Replicas int
	Seed     int64
}

func NewEnv(o EnvOpts) (*Env, error) {
	QuietLogger()
	l := evlog.New()
	sim, err := cbsim.Start(cbsim.Options{NumVB: o.NumVB, Nodes: o.Nodes, Replicas: o.Replicas, Log: l, Seed: o.Seed})
	if err != nil {
		return nil, err
	}
	return &Env{Log: l, Sim: sim}, nil
}

func (e *Env) Close() { e.Sim.Close() }

// BaseConfig returns a configuration pointing at the simulated cluster with every optional
// component switched off and short intervals; callers adjust what they need.
func (e *Env) BaseConfig() *config.Dcp {
	return &config.Dcp{
		Hosts:      e.Sim.Hosts(),
		BucketName: e.Sim.Bucket,
		Dcp: config.ExternalDcp{Group: config.DCPGroup{Name: "g1", Membership: config.DCPGroupMembership{
			Type: "static", MemberNumber: 1, TotalMembers: 1, RebalanceDelay: 50 * time.Millisecond}}},
		Metadata:           config.Metadata{Type: "couchbase"},
		RollbackMitigation: config.RollbackMitigation{Disabled: true, Interval: 20 * time.Millisecond, ConfigWatchInterval: 50 * time.Millisecond},
		Checkpoint:         config.Checkpoint{Type: "manual", Interval: 20 * time.Millisecond, Timeout: 2 * time.Second},
		HealthCheck:        config.HealthCheck{Disabled: true},
		API:                config.API{Disabled: true},
		Logging:            config.Logging{Level: "error"},
		ConnectionTimeout:  10 * time.Second,
	}
}

// Full is one running Dcp instance (M-full).
type Full struct {
	Env      *Env
	Cfg      *config.Dcp
	D        dcp.Dcp
	Cons     *Consumer
	EH       *EventHandler
	startRet chan struct{}
	PanicVal any
}

type FullOpts struct {
	Metadata     metadata.Metadata // nil: library default per config
	Consumer     *Consumer
	EH           *EventHandler
	ReadyTimeout time.Duration
	// WhileStarting runs concurrently with Start() before readiness (e.g. to feed the first
	// membership information to a dynamic membership through the HTTP API).
	WhileStarting func()
}

// StartFull creates the Dcp exactly as an application would and runs Start() in a goroutine.
// It returns after the library signalled readiness, or with an error on timeout.
func (e *Env) StartFull(cfg *config.Dcp, o FullOpts) (*Full, error) {
	if o.Consumer == nil {
		o.Consumer = &Consumer{Log: e.Log}
	}
	if o.EH == nil {
		o.EH = NewEventHandler(e.Log)
	}
	if o.ReadyTimeout == 0 {
		o.ReadyTimeout = 30 * time.Second
	}
	e.Log.Add(evlog.Rec{K: "ctl.newdcp.call", VB: -1})
	d, err := dcp.NewExtendedDcp(cfg, models.Consumer(o.Consumer))
	if err != nil {
		e.Log.Add(evlog.Rec{K: "ctl.newdcp.err", VB: -1, S: err.Error()})
		return nil, err
	}
	if o.Metadata != nil {
		d.SetMetadata(o.Metadata)
	}
	d.SetEventHandler(o.EH)
	f := &Full{Env: e, Cfg: cfg, D: d, Cons: o.Consumer, EH: o.EH, startRet: make(chan struct{})}
	go func() {
		defer close(f.startRet)
		e.Log.Add(evlog.Rec{K: "ctl.start.call", VB: -1})
		d.Start()
		e.Log.Add(evlog.Rec{K: "ctl.start.ret", VB: -1})
	}()
	if o.WhileStarting != nil {
		go o.WhileStarting()
	}
	select {
	case <-d.WaitUntilReady():
		e.Log.Add(evlog.Rec{K: "ctl.ready", VB: -1})
		return f, nil
	case <-f.startRet:
		select {
		case <-d.WaitUntilReady():
			e.Log.Add(evlog.Rec{K: "ctl.ready", VB: -1})
			return f, nil // became ready and stopped on its own right away (finite mode)
		default:
		}
		return f, fmt.Errorf("Start returned before readiness")
	case <-time.After(o.ReadyTimeout):
		return f, fmt.Errorf("not ready within %v", o.ReadyTimeout)
	}
}

// Close requests shutdown and waits until Start() has returned (completion of Close, DESIGN §3 rule 2).
func (f *Full) Close(timeout time.Duration) bool {
	f.Env.Log.Add(evlog.Rec{K: "ctl.close.call", VB: -1})
	f.D.Close()
	f.Env.Log.Add(evlog.Rec{K: "ctl.close.ret", VB: -1})
	return f.WaitStartReturn(timeout)
}

func (f *Full) WaitStartReturn(timeout time.Duration) bool {
	select {
	case <-f.startRet:
		return true
	case <-time.After(timeout):
		return false
	}
}

func (f *Full) StartReturned() bool {
	select {
	case <-f.startRet:
		return true
	default:
		return false
	}
}

// Commit calls Dcp.Commit with call/return records.
func (f *Full) Commit() {
	f.Env.Log.Add(evlog.Rec{K: "ctl.commit.call", VB: -1})
	f.D.Commit()
	f.Env.Log.Add(evlog.Rec{K: "ctl.commit.ret", VB: -1})
}

// Stacks returns a dump of all goroutines.
func Stacks() string {
	buf := make([]byte, 1<<20)
	for {
		n := runtime.Stack(buf, true)
		if n < len(buf) {
			return string(buf[:n])
		}
		buf = make([]byte, 2*len(buf))
	}
}

// LibStacks returns only the goroutines that have a go-dcp frame, abbreviated.
func LibStacks() []string {
	var out []string
	for _, g := range strings.Split(Stacks(), "\n\n") {
		if strings.Contains(g, "github.com/Trendyol/go-dcp") {
			lines := strings.Split(g, "\n")
			if len(lines) > 14 {
				lines = lines[:14]
			}
			out = append(out, strings.Join(lines, "\n"))
		}
	}
	return out
}

// ConfirmHang implements the hang rule for Close(): the goroutine executing Dcp.Start()/close() is
// parked at the same place in two dumps `gap` apart. (Background traffic such as config polling keeps
// the log growing, so log growth is not used.)
func ConfirmHang(l *evlog.Log, gap time.Duration) (bool, []string) {
	pick := func() []string {
		var out []string
		for _, g := range strings.Split(Stacks(), "\n\n") {
			if strings.Contains(g, "go-dcp.(*dcp).Start") || strings.Contains(g, "go-dcp.(*dcp).close") {
				lines := strings.Split(g, "\n")
				if len(lines) > 24 {
					lines = lines[:24]
				}
				out = append(out, strings.Join(lines, "\n"))
			}
		}
		return out
	}
	norm := func(s []string) string {
		var o []string
		for _, g := range s {
			ls := strings.SplitN(g, "\n", 2)
			if len(ls) == 2 {
				o = append(o, ls[1])
			}
		}
		return strings.Join(o, "|")
	}
	a := pick()
	time.Sleep(gap)
	b := pick()
	if len(a) == 0 || len(b) == 0 {
		return false, b
	}
	return norm(a) == norm(b), b
}

// FreePort returns a TCP port for this process's HTTP API. Concurrent child processes must never
// pick the same port (a child whose API failed to bind would silently scrape another child's API), so
// the port is derived from the process id (unique among live processes) and probed.
var portCtr int

func FreePort() int {
	for i := 0; i < 50; i++ {
		p := 10000 + (os.Getpid()+portCtr*20011)%20000
		portCtr++
		l, err := net.Listen("tcp", fmt.Sprintf(":%d", p))
		if err != nil {
			continue
		}
		l.Close()
		return p
	}
	return 0
}

// HTTPDo performs a request against the client's HTTP API.
func HTTPDo(method, url string, body string, timeout time.Duration) (int, string, error) {
	req, err := http.NewRequest(method, url, strings.NewReader(body))
	if err != nil {
		return 0, "", err
	}
	if body != "" {
		req.Header.Set("Content-Type", "application/json")
	}
	c := &http.Client{Timeout: timeout}
	resp, err := c.Do(req)
	if err != nil {
		return 0, "", err
	}
	defer resp.Body.Close()
	b, _ := io.ReadAll(resp.Body)
	return resp.StatusCode, string(b), nil
}
