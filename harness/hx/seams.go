// Package hx holds the recording seams (consumer, metadata, event handler), the environment builder
// and small helpers shared by all property workloads.
package hx

import (
	"errors"
	"fmt"
	"sync"
	"time"

	"github.com/Trendyol/go-dcp/models"
	"github.com/Trendyol/go-dcp/wrapper"
	"github.com/couchbase/gocbcore/v10"

	"verif/harness/evlog"
)

// Delivered is one ConsumeEvent call as seen at the consumer boundary.
type Delivered struct {
	VB        uint16
	Seq       uint64
	Kind      byte // 'm','d','e'
	Key       []byte
	Value     []byte
	Cas       uint64
	RevNo     uint64
	Flags     uint32
	Expiry    uint32
	Datatype  uint8
	Cid       uint32
	CollName  string
	EventTime time.Time
	Off       models.Offset         // copy of *Offset at delivery
	Snap      models.SnapshotMarker // copy of *Offset.SnapshotMarker at delivery
	OffPtr    *models.Offset
	SnapPtr   *models.SnapshotMarker
	Ctx       *models.ListenerContext
	T         int64
	Idx       int
	log       *evlog.Log
	acked     bool
}

// Ack acknowledges the event through the library's closure, recording call and return.
func (d *Delivered) Ack() {
	d.log.Add(evlog.Rec{K: "cons.ack.call", VB: int(d.VB), Seq: d.Seq})
	d.Ctx.Ack()
	d.log.Add(evlog.Rec{K: "cons.ack.ret", VB: int(d.VB), Seq: d.Seq})
	d.acked = true
}

// Commit calls the library's Commit closure, recording call and return.
func (d *Delivered) Commit() {
	d.log.Add(evlog.Rec{K: "cons.commit.call", VB: int(d.VB), Seq: d.Seq})
	d.Ctx.Commit()
	d.log.Add(evlog.Rec{K: "cons.commit.ret", VB: int(d.VB), Seq: d.Seq})
}

type Tracked struct {
	VB   uint16
	Off  models.Offset
	Snap models.SnapshotMarker
	Ptr  *models.Offset
	SPtr *models.SnapshotMarker
	T    int64
}

// Consumer records every delivery and every tracked-offset notification.
type Consumer struct {
	Log *evlog.Log
	// OnEvent runs inside ConsumeEvent (on the library's goroutine) after the delivery was recorded.
	OnEvent func(d *Delivered)
	mu      sync.Mutex
	evs     []*Delivered
	trk     []*Tracked
}

func (c *Consumer) ConsumeEvent(ctx *models.ListenerContext) {
	d := &Delivered{Ctx: ctx, log: c.Log}
	switch e := ctx.Event.(type) {
	case models.DcpMutation:
		d.Kind, d.VB, d.Seq, d.Key, d.Value, d.Cas, d.RevNo, d.Flags, d.Expiry, d.Datatype, d.Cid = 'm', e.VbID, e.SeqNo, e.Key, e.Value, e.Cas, e.RevNo, e.Flags, e.Expiry, e.Datatype, e.CollectionID
		d.CollName, d.EventTime, d.OffPtr = e.CollectionName, e.EventTime, e.Offset
	case models.DcpDeletion:
		d.Kind, d.VB, d.Seq, d.Key, d.Value, d.Cas, d.RevNo, d.Datatype, d.Cid = 'd', e.VbID, e.SeqNo, e.Key, e.Value, e.Cas, e.RevNo, e.Datatype, e.CollectionID
		d.CollName, d.EventTime, d.OffPtr = e.CollectionName, e.EventTime, e.Offset
	case models.DcpExpiration:
		d.Kind, d.VB, d.Seq, d.Key, d.Cas, d.RevNo, d.Cid = 'e', e.VbID, e.SeqNo, e.Key, e.Cas, e.RevNo, e.CollectionID
		d.CollName, d.EventTime, d.OffPtr = e.CollectionName, e.EventTime, e.Offset
	default:
		d.Kind = '?'
	}
	if d.OffPtr != nil {
		d.Off = *d.OffPtr
		if d.OffPtr.SnapshotMarker != nil {
			d.SnapPtr = d.OffPtr.SnapshotMarker
			d.Snap = *d.SnapPtr
		}
	}
	c.mu.Lock()
	d.Idx = len(c.evs)
	c.evs = append(c.evs, d)
	c.mu.Unlock()
	d.T = c.Log.Add(evlog.Rec{K: "cons.deliver.call", VB: int(d.VB), Seq: d.Seq, A: uint64(d.Kind), B: d.Snap.StartSeqNo, C: d.Snap.EndSeqNo, D: uint64(d.Off.VbUUID), S: string(d.Key)})
	if c.OnEvent != nil {
		c.OnEvent(d)
	}
	c.Log.Add(evlog.Rec{K: "cons.deliver.ret", VB: int(d.VB), Seq: d.Seq})
}

func (c *Consumer) TrackOffset(vbID uint16, off *models.Offset) {
	t := &Tracked{VB: vbID, Ptr: off}
	if off != nil {
		t.Off = *off
		if off.SnapshotMarker != nil {
			t.SPtr = off.SnapshotMarker
			t.Snap = *off.SnapshotMarker
		}
	}
	c.mu.Lock()
	c.trk = append(c.trk, t)
	c.mu.Unlock()
	t.T = c.Log.Add(evlog.Rec{K: "cons.track", VB: int(vbID), Seq: t.Off.SeqNo, B: t.Snap.StartSeqNo, C: t.Snap.EndSeqNo, D: uint64(t.Off.VbUUID)})
}

func (c *Consumer) Events() []*Delivered {
	c.mu.Lock()
	defer c.mu.Unlock()
	return append([]*Delivered{}, c.evs...)
}

func (c *Consumer) Tracks() []*Tracked {
	c.mu.Lock()
	defer c.mu.Unlock()
	return append([]*Tracked{}, c.trk...)
}

func (c *Consumer) Count() int {
	c.mu.Lock()
	defer c.mu.Unlock()
	return len(c.evs)
}

// ---------------------------------------------------------------------------------------------

// MemMetadata is a recording in-memory metadata.Metadata with scripted faults.
type MemMetadata struct {
	Log *evlog.Log
	// OnSave is consulted at the start of every Save (after the call record). It may block
	// (slow store) and return an error (rejected store). n is the 1-based call index.
	OnSave func(n int, state map[uint16]*models.CheckpointDocument, dirty map[uint16]bool) error
	// OnLoad may return an error to fail the load.
	OnLoad    func(vbIds []uint16) error
	mu        sync.Mutex
	store     map[uint16]models.CheckpointDocument
	saves     int
	writes    int // number of per-vBucket writes applied
	SaveCalls []SaveCall
}

type SaveCall struct {
	N     int
	TCall int64
	TRet  int64
	State map[uint16]uint64 // seqno per vb in the dump
	Dirty map[uint16]bool
	Err   string
	Wrote []uint16
}

func NewMemMetadata(l *evlog.Log) *MemMetadata {
	return &MemMetadata{Log: l, store: map[uint16]models.CheckpointDocument{}}
}

func cloneDoc(d *models.CheckpointDocument) models.CheckpointDocument {
	out := models.CheckpointDocument{BucketUUID: d.BucketUUID}
	if d.Checkpoint != nil {
		cp := *d.Checkpoint
		if d.Checkpoint.Snapshot != nil {
			sn := *d.Checkpoint.Snapshot
			cp.Snapshot = &sn
		}
		out.Checkpoint = &cp
	}
	return out
}

func (m *MemMetadata) Save(state map[uint16]*models.CheckpointDocument, dirty map[uint16]bool, _ string) error {
	m.mu.Lock()
	m.saves++
	n := m.saves
	m.mu.Unlock()
	sc := SaveCall{N: n, State: map[uint16]uint64{}, Dirty: map[uint16]bool{}}
	for vb, d := range state {
		if d != nil && d.Checkpoint != nil {
			sc.State[vb] = d.Checkpoint.SeqNo
		}
	}
	for vb, d := range dirty {
		sc.Dirty[vb] = d
	}
	sc.TCall = m.Log.Add(evlog.Rec{K: "md.save.call", VB: -1, A: uint64(n)})
	var err error
	if m.OnSave != nil {
		err = m.OnSave(n, state, dirty)
	}
	if err == nil {
		m.mu.Lock()
		for vb, d := range state {
			if dirty[vb] && d != nil {
				m.store[vb] = cloneDoc(d)
				m.writes++
				sc.Wrote = append(sc.Wrote, vb)
				var s, ss, se, uu uint64
				if d.Checkpoint != nil {
					s, uu = d.Checkpoint.SeqNo, d.Checkpoint.VbUUID
					if d.Checkpoint.Snapshot != nil {
						ss, se = d.Checkpoint.Snapshot.StartSeqNo, d.Checkpoint.Snapshot.EndSeqNo
					}
				}
				m.Log.Add(evlog.Rec{K: "md.write", VB: int(vb), Seq: s, B: ss, C: se, D: uu, A: uint64(n)})
			}
		}
		m.mu.Unlock()
	} else {
		sc.Err = err.Error()
	}
	sc.TRet = m.Log.Add(evlog.Rec{K: "md.save.ret", VB: -1, A: uint64(n), S: sc.Err})
	m.mu.Lock()
	m.SaveCalls = append(m.SaveCalls, sc)
	m.mu.Unlock()
	return err
}

func (m *MemMetadata) Load(vbIds []uint16, bucketUUID string) (*wrapper.ConcurrentSwissMap[uint16, *models.CheckpointDocument], bool, error) {
	m.Log.Add(evlog.Rec{K: "md.load.call", VB: -1, A: uint64(len(vbIds))})
	if m.OnLoad != nil {
		if err := m.OnLoad(vbIds); err != nil {
			m.Log.Add(evlog.Rec{K: "md.load.ret", VB: -1, S: err.Error()})
			return nil, false, err
		}
	}
	st := wrapper.CreateConcurrentSwissMap[uint16, *models.CheckpointDocument](1024)
	exist := false
	m.mu.Lock()
	for _, vb := range vbIds {
		if d, ok := m.store[vb]; ok {
			cp := cloneDoc(&d)
			st.Store(vb, &cp)
			exist = true
		} else {
			st.Store(vb, models.NewEmptyCheckpointDocument(bucketUUID))
		}
	}
	m.mu.Unlock()
	m.Log.Add(evlog.Rec{K: "md.load.ret", VB: -1})
	return st, exist, nil
}

func (m *MemMetadata) Clear(vbIds []uint16) error {
	m.mu.Lock()
	for _, vb := range vbIds {
		delete(m.store, vb)
	}
	m.mu.Unlock()
	return nil
}

// Put pre-loads a checkpoint.
func (m *MemMetadata) Put(vb uint16, uuid, seq, ss, se uint64) {
	m.mu.Lock()
	m.store[vb] = models.CheckpointDocument{Checkpoint: &models.CheckpointDocumentCheckpoint{VbUUID: uuid, SeqNo: seq,
		Snapshot: &models.CheckpointDocumentSnapshot{StartSeqNo: ss, EndSeqNo: se}}}
	m.mu.Unlock()
}

func (m *MemMetadata) Get(vb uint16) (models.CheckpointDocument, bool) {
	m.mu.Lock()
	defer m.mu.Unlock()
	d, ok := m.store[vb]
	if !ok {
		return d, false
	}
	return cloneDoc(&d), true
}

func (m *MemMetadata) Seq(vb uint16) (uint64, bool) {
	d, ok := m.Get(vb)
	if !ok || d.Checkpoint == nil {
		return 0, false
	}
	return d.Checkpoint.SeqNo, true
}

func (m *MemMetadata) Saves() int  { m.mu.Lock(); defer m.mu.Unlock(); return m.saves }
func (m *MemMetadata) Writes() int { m.mu.Lock(); defer m.mu.Unlock(); return m.writes }
func (m *MemMetadata) Calls() []SaveCall {
	m.mu.Lock()
	defer m.mu.Unlock()
	return append([]SaveCall{}, m.SaveCalls...)
}

var ErrStore = errors.New("scripted store rejection")

// ---------------------------------------------------------------------------------------------

// EventHandler records lifecycle callbacks and can hold the library inside one.
type EventHandler struct {
	Log  *evlog.Log
	mu   sync.Mutex
	Hold map[string]func() // name -> function executed (may block) inside the callback
	seq  []string
}

func NewEventHandler(l *evlog.Log) *EventHandler {
	return &EventHandler{Log: l, Hold: map[string]func(){}}
}

func (h *EventHandler) SetHold(name string, f func()) {
	h.mu.Lock()
	if f == nil {
		delete(h.Hold, name)
	} else {
		h.Hold[name] = f
	}
	h.mu.Unlock()
}

func (h *EventHandler) cb(name string) {
	h.Log.Add(evlog.Rec{K: "eh." + name, VB: -1})
	h.mu.Lock()
	h.seq = append(h.seq, name)
	f := h.Hold[name]
	h.mu.Unlock()
	if f != nil {
		f()
	}
	h.Log.Add(evlog.Rec{K: "ehret." + name, VB: -1})
}

func (h *EventHandler) Seq() []string {
	h.mu.Lock()
	defer h.mu.Unlock()
	return append([]string{}, h.seq...)
}

func (h *EventHandler) BeforeRebalanceStart() { h.cb("BRS") }
func (h *EventHandler) AfterRebalanceStart()  { h.cb("ARS") }
func (h *EventHandler) BeforeRebalanceEnd()   { h.cb("BRE") }
func (h *EventHandler) AfterRebalanceEnd()    { h.cb("ARE") }
func (h *EventHandler) BeforeStreamStart()    { h.cb("BSStart") }
func (h *EventHandler) AfterStreamStart()     { h.cb("ASStart") }
func (h *EventHandler) BeforeStreamStop()     { h.cb("BSS") }
func (h *EventHandler) AfterStreamStop()      { h.cb("ASS") }

// ---------------------------------------------------------------------------------------------

// WaitFor polls cond until it holds or the timeout expires.
func WaitFor(timeout time.Duration, cond func() bool) bool {
	dl := time.Now().Add(timeout)
	for {
		if cond() {
			return true
		}
		if time.Now().After(dl) {
			return cond()
		}
		time.Sleep(500 * time.Microsecond)
	}
}

// WaitQuiet waits until the log has not grown for `quiet`; returns false when `max` elapsed first.
func WaitQuiet(l *evlog.Log, quiet, max time.Duration, ignore func(evlog.Rec) bool) bool {
	dl := time.Now().Add(max)
	count := func() int {
		if ignore == nil {
			return l.Len()
		}
		n := 0
		for _, r := range l.Snapshot() {
			if !ignore(r) {
				n++
			}
		}
		return n
	}
	last := count()
	lastChange := time.Now()
	for {
		time.Sleep(quiet / 8)
		n := count()
		if n != last {
			last = n
			lastChange = time.Now()
		} else if time.Since(lastChange) >= quiet {
			return true
		}
		if time.Now().After(dl) {
			return false
		}
	}
}

func VbUUID(v uint64) gocbcore.VbUUID { return gocbcore.VbUUID(v) }

func Sprintf(f string, a ...any) string { return fmt.Sprintf(f, a...) }

// WrapMetadata records Save/Load calls of a real back end (file, couchbase) without changing them.
type WrapMetadata struct {
	Inner interface {
		Save(state map[uint16]*models.CheckpointDocument, dirtyOffsets map[uint16]bool, bucketUUID string) error
		Load(vbIds []uint16, bucketUUID string) (*wrapper.ConcurrentSwissMap[uint16, *models.CheckpointDocument], bool, error)
		Clear(vbIds []uint16) error
	}
	Log *evlog.Log
	mu  sync.Mutex
	n   int
}

func (w *WrapMetadata) Save(state map[uint16]*models.CheckpointDocument, dirty map[uint16]bool, b string) error {
	w.mu.Lock()
	w.n++
	n := w.n
	w.mu.Unlock()
	w.Log.Add(evlog.Rec{K: "md.save.call", VB: -1, A: uint64(n)})
	for vb, d := range state {
		if d != nil && d.Checkpoint != nil {
			var ss, se uint64
			if d.Checkpoint.Snapshot != nil {
				ss, se = d.Checkpoint.Snapshot.StartSeqNo, d.Checkpoint.Snapshot.EndSeqNo
			}
			// the whole dump: a whole-state back end (file) holds exactly these vBuckets after the save
			w.Log.Add(evlog.Rec{K: "md.state", VB: int(vb), Seq: d.Checkpoint.SeqNo, B: ss, C: se, D: d.Checkpoint.VbUUID, A: uint64(n)})
		}
	}
	err := w.Inner.Save(state, dirty, b)
	es := ""
	if err != nil {
		es = err.Error()
	} else {
		for vb, d := range state {
			if dirty[vb] && d != nil && d.Checkpoint != nil {
				var ss, se uint64
				if d.Checkpoint.Snapshot != nil {
					ss, se = d.Checkpoint.Snapshot.StartSeqNo, d.Checkpoint.Snapshot.EndSeqNo
				}
				w.Log.Add(evlog.Rec{K: "md.write", VB: int(vb), Seq: d.Checkpoint.SeqNo, B: ss, C: se, D: d.Checkpoint.VbUUID, A: uint64(n)})
			}
		}
	}
	w.Log.Add(evlog.Rec{K: "md.save.ret", VB: -1, A: uint64(n), S: es})
	return err
}

func (w *WrapMetadata) Load(vbIds []uint16, b string) (*wrapper.ConcurrentSwissMap[uint16, *models.CheckpointDocument], bool, error) {
	w.Log.Add(evlog.Rec{K: "md.load.call", VB: -1, A: uint64(len(vbIds))})
	st, ex, err := w.Inner.Load(vbIds, b)
	w.Log.Add(evlog.Rec{K: "md.load.ret", VB: -1})
	return st, ex, err
}

func (w *WrapMetadata) Clear(vbIds []uint16) error { return w.Inner.Clear(vbIds) }
