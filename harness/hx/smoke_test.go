package hx

import (
	"fmt"
	"testing"
	"time"

	"verif/harness/cbsim"
)

func TestSmokeFull(t *testing.T) {
	env, err := NewEnv(EnvOpts{NumVB: 4, Nodes: 2})
	if err != nil {
		t.Fatal(err)
	}
	defer env.Close()
	for vb := uint16(0); vb < 4; vb++ {
		env.Sim.Append(vb, []cbsim.Item{{Kind: 'm', Key: []byte(fmt.Sprintf("k%d", vb)), Value: []byte("v")}, {Kind: 'd', Key: []byte("x")}})
	}
	cfg := env.BaseConfig()
	cons := &Consumer{Log: env.Log}
	cons.OnEvent = func(d *Delivered) { d.Ack() }
	t0 := time.Now()
	f, err := env.StartFull(cfg, FullOpts{Consumer: cons})
	if err != nil {
		t.Fatal(err, LibLogTail(20))
	}
	t.Log("ready in", time.Since(t0))
	if !WaitFor(5*time.Second, func() bool { return cons.Count() == 8 }) {
		t.Fatalf("delivered %d", cons.Count())
	}
	env.Sim.Append(1, []cbsim.Item{{Kind: 'e', Key: []byte("exp")}, {Kind: 's', Key: []byte("c9"), Cid: 9}, {Kind: 'a'}})
	WaitFor(5*time.Second, func() bool { return cons.Count() == 9 })
	f.Commit()
	for _, k := range env.Sim.DocKeys() {
		t.Log("doc", k, string(env.Sim.GetDoc(k).Xattrs["cbgo"]))
	}
	if !f.Close(10 * time.Second) {
		t.Fatal("close hang\n" + Stacks())
	}
	t.Log("events", cons.Count(), "log", env.Log.Len(), "conns", env.Sim.OpenConns())
	for _, r := range env.Log.Snapshot()[:0] {
		t.Log(r.String())
	}
}
