#!/bin/bash
# tools/sweep.sh [tier] [seed...] — run every claimed check and summarize
tier="${1:-quick}"; shift
seeds="${@:-1}"
cd /verif
ids=$(python3 -c "import json; print(' '.join(c['property_id'] for c in json.load(open('MANIFEST.json'))['checks']))")
for s in $seeds; do
  for id in $ids; do
    t0=$(date +%s)
    out=$(VERIF_SEED=$s VERIF_OUT=${SWEEP_OUT:-/verif} ./check $id $tier 2>&1); rc=$?
    t1=$(date +%s)
    echo "seed=$s $id rc=$rc $((t1-t0))s $(echo "$out" | grep -c '^VIOLATION') viol $(echo "$out" | grep -c KNOWN-FINDING) known | $(echo "$out" | grep 'seed=' | tail -1 | cut -c1-150)"
  done
done
