#!/bin/bash
# tools/mut6.sh <dir-with-CXX/N/patch.diff> — run each new seeded change against its property's quick check (parallel)
src="${1:-/tmp/mut6/out}"
run_one() { d="$1"; prop=$(basename $(dirname "$d")); n=$(basename "$d"); [ -f "$d/patch.diff" ] || exit 0
  [ -s "$d/.result" ] && exit 0
  r=$(/verif/tools/mutest.sh "$d/patch.diff" "$prop" quick 2>&1)
  echo "$r" > "$d/.result"
  echo "$prop/$n $(echo "$r" | grep -o 'exit=[0-9]*' | tail -1) $(echo "$r" | grep -o 'key=[^ ]*' | head -1) $(echo "$r" | grep -c PATCH-DOES-NOT)"; }
export -f run_one
ls -d "$src"/C*/[0-9] 2>/dev/null | xargs -P ${JOBS:-4} -I{} bash -c 'run_one {}'
