#!/usr/bin/env python3
# Generates /verif/MANIFEST.json from the table below (kept in one place so it stays valid).
import json, os
base = os.path.dirname(os.path.dirname(os.path.abspath(__file__)))
ENV = "GOFLAGS=-mod=mod GOPROXY=off GOSUMDB=off GOTOOLCHAIN=local"
C = {}  # id -> (category, technique, text, note, design_ref)
C['C09'] = ('exploration', 'runtime monitoring: exhaustive execution of the real partition function under a direct predicate oracle',
  'Executes helpers.ChunkSlice for every (N,T), 1<=T<=N<=1024, twice, checking non-empty/contiguous/ascending/disjoint/covering/balanced and call-to-call equality; the discovery path (NewVBucketDiscovery+static membership, Get and its metric) is executed for sampled (N,T,member). Exhaustive over the quantifier, so this is as strong as execution can be for a pure function.',
  'Trusts the Go runtime; the discovery path is sampled (quick 2000 triples, thorough ~70k), not exhaustive.', 'DESIGN.md §4 C09')
C['C09'] = (C['C09'][0], C['C09'][1], C['C09'][2] + ' Wire kind: a member k/T started on top of a checkpoint file holding all N vBuckets requests exactly its chunk; also on top of a file written under a narrower assignment (each vBucket of the chunk requested once).', C['C09'][3], C['C09'][4])  # C09WIRE
NA = {}
ids = [json.loads(l)['id'] for l in open(os.path.join(base, 'properties.jsonl'))]
extra = os.path.join(base, 'tools', 'manifest_entries.json')
if os.path.exists(extra):
    for k, v in json.load(open(extra)).items():
        C[k] = tuple(v)
checks = []
for i in ids:
    if i in C:
        cat, tech, text, note, ref = C[i]
        checks.append({
            'property_id': i,
            'quick_cmd': f'./check {i} quick',
            'thorough_cmd': f'./check {i} thorough',
            'evidence_file': f'/verif/evidence/{i}.json',
            'replay_cmd_template': './check replay {path}',
            'engine': 'vh',
            'level_claimed': {'category': cat, 'text': text, 'design_ref': ref},
            'level_note': note,
            'technique': tech,
        })
na = [{'property_id': i, 'reason': NA.get(i, 'check not built yet in this round (runtime monitoring applies; see DESIGN.md §4); not claimed until its monitor is committed and silent on the unchanged tree')} for i in ids if i not in C]
m = {
    'version': 1,
    'setup_cmd': './check setup',
    'hooks': {
        'guard': 'verif',
        'enable': 'go build -tags verif ./cmd/vh in /verif/harness (go.mod: replace github.com/Trendyol/go-dcp => /repo). Guarded hook: stream/verif_hook_on.go (//go:build verif) exports stream.VerifHook, called at the points "wait.signal" (stream.wait(), after the finished signal was received) "setoffset.checked" (stream.setOffset(), between regression guard and store) "reopen.start" (stream.reopenStream(), before the first attempt) and "save.marks" (checkpoint.Save(), between reading the dirty marks and taking them over); stream/verif_hook_off.go (//go:build !verif) makes the call a no-op. Used by C11 placement late-waiter, C04 kind ackrace, C12 kind reopen-vs-rebalance, C05 kind ack-in-handoff and C11 kind save-across-close to delay the goroutine there. All other seams are public interfaces.',
        'baseline_off_cmd': f'cd /repo && {ENV} go test -vet=off -count=1 ./...',
        'source_commits': ['0fff1b85033d60a549aa5b51f73cde2f90f2b53d', 'dbb60370d4d6edf008999aeb23fb4fc37d5f6ed7', 'be42d95c2cce5b99eea493f8de486e59f6748238', '0b5a57a372c79a2114dfd53db51b08be62687f7e'],
        'add_only': True,
    },
    'engines': [{'name': 'vh', 'path': '/verif/harness', 'serves_properties': sorted(C.keys()),
                 'kind_free_text': 'Go harness: simulated Couchbase cluster (cbsim) + recording seams + online/offline monitors; cases run in child processes, parent aggregates verdicts and evidence'}],
    'checks': checks,
    'not_applicable': na,
    'notes': 'Technique family: runtime monitoring and sanitizers. Every check rebuilds the harness against /repo working tree. Exit 0 held / 1 VIOLATION / 2 infrastructure (build failure, too few conclusive cases). Known findings: /verif/known_findings.json.',
}
json.dump(m, open(os.path.join(base, 'MANIFEST.json'), 'w'), indent=1)
print('wrote MANIFEST.json with', len(checks), 'checks,', len(na), 'not_applicable')
