#!/bin/bash
# tools/mutest.sh <patch.diff> <ID> [tier]  — apply a seeded change to /repo, run the check, undo it.
p="$1"; id="$2"; tier="${3:-quick}"
cd /repo || exit 2
if ! git apply --check "$p" 2>/dev/null; then echo "PATCH-DOES-NOT-APPLY $p"; exit 3; fi
git apply "$p"
cd /verif
./check "$id" "$tier" > /tmp/mutest.$$.log 2>&1; rc=$?
git -C /repo checkout -- . 
grep -E "VIOLATION|KNOWN-FINDING|clause=|INFRA|BUILD-FAILED|seed=" /tmp/mutest.$$.log | head -8
rm -f /tmp/mutest.$$.log
echo "exit=$rc"
# restore evidence written during the mutant run
git -C /verif checkout -- evidence 2>/dev/null
exit $rc
