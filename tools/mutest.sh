#!/bin/bash
# tools/mutest.sh <patch.diff> <ID> [tier]  - apply a seeded change to a scratch copy of /repo (HEAD), run the
# check against that copy (VERIF_REPO), remove the copy. Neither /repo nor the committed evidence is touched.
p="$1"; id="$2"; tier="${3:-quick}"
S=$(mktemp -d /var/tmp/mutest-XXXXXX)
trap 'rm -rf "$S"' EXIT
git -C /repo archive HEAD | tar -x -C "$S" || exit 2
if ! git -C "$S" init -q 2>/dev/null; then :; fi
if ! (cd "$S" && git apply --check "$p" 2>/dev/null); then echo "PATCH-DOES-NOT-APPLY $p"; exit 3; fi
(cd "$S" && git apply "$p")
E=$(mktemp -d /var/tmp/mutest-ev-XXXXXX)
mkdir -p "$E/evidence"; cp /verif/known_findings.json "$E/" 2>/dev/null
cd /verif
VERIF_REPO="$S" VERIF_OUT="$E" ./check "$id" "$tier" > "$E/log" 2>&1; rc=$?
grep -E "VIOLATION|clause=|INFRA|BUILD-FAILED|seed=" "$E/log" | head -8
echo "exit=$rc"
rm -rf "$E"
exit $rc
