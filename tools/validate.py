#!/usr/bin/env python3
# validate MANIFEST.json and every evidence file against the schemas in /root/.vp
import json, sys, glob, os
import jsonschema
base = os.path.dirname(os.path.dirname(os.path.abspath(__file__)))
ms = json.load(open('/root/.vp/MANIFEST.schema.json'))
es = json.load(open('/root/.vp/EVIDENCE.schema.json'))
m = json.load(open(os.path.join(base, 'MANIFEST.json')))
jsonschema.validate(m, ms)
ids = [json.loads(l)['id'] for l in open(os.path.join(base, 'properties.jsonl'))]
claimed = [c['property_id'] for c in m['checks']]
na = [c['property_id'] for c in m.get('not_applicable', [])]
assert sorted(claimed + na) == sorted(ids), (sorted(claimed + na), 'every property must be claimed or not_applicable exactly once')
print('MANIFEST ok: claimed', len(claimed), 'not_applicable', len(na))
for f in sorted(glob.glob(os.path.join(base, 'evidence', '*.json'))):
    e = json.load(open(f))
    jsonschema.validate(e, es)
    print('evidence ok', os.path.basename(f), e['tier'], 'evals', e['coverage'].get('evaluations'), 'distinct', e['coverage'].get('distinct_nontrivial'), 'viol', e.get('violations'))
